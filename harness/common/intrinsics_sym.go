package __PKG__

import (
	"os"
	"sync"
)

// Body-less declarations: the symbolic executor intercepts these. For native replay the file
// intrinsics_native.go provides bodies instead.

func nondetInt() int
func nondetBool() bool
func nondetString() string

// nondetText: an arbitrary string that is only ever treated as text (payload data, event types, ids). Symbolically the
// same as nondetString; natively a value the solver left unconstrained is rendered with surrounding blanks, a control
// character, a quote, a backslash, a percent verb, '<' and a byte that is not UTF-8, so that quoting, trimming, formatting
// and escaping code is exercised by every replay
func nondetText() string
func nondetBytes() []byte
func verifAssume(c bool)
func verifAssert(c bool, id string)
func verifReach(id string)
func verifNote(msg string)
func verifNoteInt(msg string, v int)
func verifSame(a, b any) bool
func verifAnd(a, b bool) bool
func verifOr(a, b bool) bool
func verifImplies(a, b bool) bool
func verifIteInt(c bool, a, b int) int
func verifParBegin()
func verifParMid()
func verifParEnd()
func verifYield()
func verifHeldLocks() int

func verifPar(f, g func()) {
	verifParBegin()
	f()
	verifParMid()
	g()
	verifParEnd()
}
func verifParam(name string) int
func verifIteStr(c bool, a, b string) string
func verifBackground(f func())
func verifEvent(kind string, a, b, c int)
func verifNodeOutcome(a, b int) int
func verifCtxErrSet() bool
func verifCtxDoneChan(c chan struct{})
func verifInterleave(on bool)

// verifGoOrder(true): from here on, at every go statement (up to 3 per path) the new goroutine may run first
func verifGoOrder(on bool)

// verifMapOrder(true): from here on a range over a built-in map of two or more entries may also run in reverse order
func verifMapOrder(on bool)

// harness goroutines under lock-granular interleaving
var verifWG sync.WaitGroup

func verifGo(f func()) {
	verifWG.Add(1)
	go func() {
		f()
		verifWG.Done()
	}()
}

func verifJoin() { verifWG.Wait() }
func verifFireTimer()
func verifFSFaults(on bool)

// verifPlantPersistentWriteFault: symbolically nothing (write faults are the model's choice per write); natively acts out a
// run in which every write failed
func verifPlantPersistentWriteFault(name string, held *os.File) *os.File
func verifFileMode(name string) int
func verifDirMode(name string) int
func verifNameLess(a, b string) bool
func verifFDContent(f *os.File) string
func verifFDIsName(f *os.File, name string) bool
func verifStdout() string
func verifTempDir() string
func verifJSONEquivalent(a, b string) bool
func verifMaybeUnencodable() any
func verifAgeFile(name string)
func verifAgeFiles(names []string)
func verifNameEq(a, b string) bool
func verifNoLocksHeld() bool
func verifCaptureStd()
func verifHeldExclusive() int
func verifPlantFailingFile(f **os.File)
func verifFDEndsWith(f *os.File, data string) bool
func verifBig(s string) string
