package __PKG__

// Models of library functions written in Go and executed symbolically in place of the originals
// (leaf operations are engine intrinsics). Shared by every harness package; never compiled natively.

import (
	"bytes"
	"context"
	"fmt"
	"io"
	"os"
	"sync"
	"time"
)

func verifSyncMapKeys(m *sync.Map) []any
func verifOnceTake(o *sync.Once) bool

// (*sync.Map).Range: visits a snapshot of the keys; a key deleted meanwhile is skipped, a value stored
// meanwhile is seen with its current value (both allowed by the sync.Map contract).
func verifModelSyncMapRange(m *sync.Map, f func(k, v any) bool) {
	keys := verifSyncMapKeys(m)
	for _, k := range keys {
		v, ok := m.Load(k)
		if !ok {
			continue
		}
		if !f(k, v) {
			break
		}
	}
}

func verifModelOnceDo(o *sync.Once, f func()) {
	if verifOnceTake(o) {
		f()
	}
}

func verifModelErrorsIs(err, target error) bool {
	if err == nil || target == nil {
		return err == target
	}
	return verifModelIs(err, target)
}

func verifModelIs(err, target error) bool {
	for {
		if err == target {
			return true
		}
		if x, ok := err.(interface{ Is(error) bool }); ok && x.Is(target) {
			return true
		}
		switch x := err.(type) {
		case interface{ Unwrap() error }:
			err = x.Unwrap()
			if err == nil {
				return false
			}
		case interface{ Unwrap() []error }:
			for _, e := range x.Unwrap() {
				if verifModelIs(e, target) {
					return true
				}
			}
			return false
		default:
			return false
		}
	}
}

func verifReaderRest(r *bytes.Reader) []byte
func verifReaderLeft(r *bytes.Reader) int
func verifReaderAdvance(r *bytes.Reader, n int)

// (*bytes.Reader).WriteTo, following the standard library's code with the reader's content opaque
func verifModelReaderWriteTo(r *bytes.Reader, w io.Writer) (n int64, err error) {
	left := verifReaderLeft(r)
	if left <= 0 {
		return 0, nil
	}
	b := verifReaderRest(r)
	m, err := w.Write(b)
	if m > left {
		panic("bytes.Reader.WriteTo: invalid Write count")
	}
	verifReaderAdvance(r, m)
	n = int64(m)
	if m != left && err == nil {
		err = io.ErrShortWrite
	}
	return
}

func verifPoolTake(p *sync.Pool) (any, bool)
func verifPoolGive(p *sync.Pool, x any)

// sync.Pool: Get returns some previously Put value (or none, at the environment's choice), else New()
func verifModelPoolGet(p *sync.Pool) any {
	if x, ok := verifPoolTake(p); ok {
		return x
	}
	if p.New != nil {
		return p.New()
	}
	return nil
}

func verifModelPoolPut(p *sync.Pool, x any) { verifPoolGive(p, x) }

func verifStatRaw(name string) (int, int, bool)
func verifENOENT() error

type verifFileInfo struct {
	name  string
	size  int64
	mode  os.FileMode
	mtime int
}

func (f *verifFileInfo) Name() string       { return f.name }
func (f *verifFileInfo) Size() int64        { return f.size }
func (f *verifFileInfo) Mode() os.FileMode  { return f.mode }
func (f *verifFileInfo) ModTime() time.Time { return time.Unix(0, int64(f.mtime)) }
func (f *verifFileInfo) IsDir() bool        { return false }
func (f *verifFileInfo) Sys() any           { return nil }

func verifModelStat(name string) (os.FileInfo, error) {
	size, mode, ok := verifStatRaw(name)
	if !ok {
		return nil, verifENOENT()
	}
	return &verifFileInfo{name: name, size: int64(size), mode: os.FileMode(mode), mtime: verifMTimeRawName(name)}, nil
}

func verifFStatRaw(f *os.File) (int, int, bool)
func verifFMTimeRaw(f *os.File) int
func verifMTimeRawName(name string) int

func verifModelFStat(f *os.File) (os.FileInfo, error) {
	size, mode, ok := verifFStatRaw(f)
	if !ok {
		return nil, verifENOENT()
	}
	return &verifFileInfo{name: "", size: int64(size), mode: os.FileMode(mode), mtime: verifFMTimeRaw(f)}, nil
}

// context.Cause: the cause recorded at cancellation, which is the context's error unless the canceller gave another one
// (harness contexts expose theirs through VerifCause)
func verifModelContextCause(c context.Context) error {
	if v, ok := c.(interface{ VerifCause() error }); ok {
		return v.VerifCause()
	}
	return c.Err()
}

func verifSliceLenAny(x any) int
func verifSliceSwapAny(x any, i, j int)

// sort.SliceStable (and sort.Slice, whose result on ties is unspecified: the stable order is one of the allowed ones) as an
// insertion sort driven by the caller's less function
func verifModelSliceStable(x any, less func(i, j int) bool) {
	n := verifSliceLenAny(x)
	for i := 1; i < n; i++ {
		for j := i; j > 0 && less(j, j-1); j-- {
			verifSliceSwapAny(x, j, j-1)
		}
	}
}

// fmt.Fprintf: format, then one Write of the result
func verifModelFprintf(w io.Writer, format string, a ...any) (int, error) {
	return w.Write([]byte(fmt.Sprintf(format, a...)))
}

// sort.SearchStrings: binary search (meaningful on a sorted slice only; on any other slice it returns whatever the probes lead to)
func verifModelSearchStrings(a []string, x string) int {
	i, j := 0, len(a)
	for i < j {
		h := int(uint(i+j) >> 1)
		if a[h] < x {
			i = h + 1
		} else {
			j = h
		}
	}
	return i
}
