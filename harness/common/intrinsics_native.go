package __PKG__

// Native bodies of the harness intrinsics: a counterexample found by the solver is replayed by running the
// very same harness function against the real build, with nondet* reading the model's values in order.

import (
	"encoding/json"
	"fmt"
	"os"
	"strconv"
	"sync"
	"time"
)

type verifItem struct {
	Kind string `json:"kind"`
	Val  string `json:"val"`
}

type verifReplayDoc struct {
	Entry  string         `json:"entry"`
	ID     string         `json:"id"`
	Vector []verifItem    `json:"vector"`
	Params map[string]int `json:"params"`
}

var (
	verifDoc       verifReplayDoc
	verifPos       int
	verifFailed    []string
	verifExhausted bool
	verifMu        sync.Mutex
	verifParMode   = "seq"
)

type verifAssumeFailed struct{}

func verifLoad(path string) error {
	b, err := os.ReadFile(path)
	if err != nil {
		return err
	}
	verifPos = 0
	verifFailed = nil
	return json.Unmarshal(b, &verifDoc)
}

func verifNext(kind string) string {
	verifMu.Lock()
	defer verifMu.Unlock()
	// values chosen by the environment model (json/rand failures, clock readings) are not consumed natively
	for verifPos < len(verifDoc.Vector) && (len(verifDoc.Vector[verifPos].Kind) > 4 && verifDoc.Vector[verifPos].Kind[:4] == "ext-" || verifDoc.Vector[verifPos].Kind == "now") {
		verifPos++
	}
	if verifPos >= len(verifDoc.Vector) {
		verifExhausted = true
		return ""
	}
	it := verifDoc.Vector[verifPos]
	verifPos++
	if it.Kind != kind {
		fmt.Printf("VERIF-DIVERGED nondet kind %s where vector has %s at %d\n", kind, it.Kind, verifPos-1)
	}
	return it.Val
}

func nondetInt() int {
	n, _ := strconv.ParseInt(verifNext("int"), 10, 64)
	return int(n)
}
func nondetBool() bool     { return verifNext("bool") == "true" }
func nondetString() string { return verifNext("string") }
func nondetBytes() []byte  { return []byte(verifNext("string")) }
func verifAssume(c bool) {
	if !c {
		panic(verifAssumeFailed{})
	}
}
func verifAssert(c bool, id string) {
	if !c {
		verifMu.Lock()
		verifFailed = append(verifFailed, id)
		verifMu.Unlock()
		fmt.Printf("VERIF-ASSERT-FAILED %s\n", id)
	}
}
func verifReach(id string)                  {}
func verifNote(msg string)                  { fmt.Println("VERIF-NOTE", msg) }
func verifNoteInt(msg string, v int)        { fmt.Println("VERIF-NOTE", msg, v) }
func verifSame(a, b any) bool               { return a == b }
func verifAnd(a, b bool) bool               { return a && b }
func verifOr(a, b bool) bool                { return a || b }
func verifImplies(a, b bool) bool           { return !a || b }
func verifIteInt(c bool, a, b int) int      { if c { return a }; return b }
func verifIteStr(c bool, a, b string) string { if c { return a }; return b }
func verifParBegin()                        {}
func verifParMid()                          {}
func verifParEnd()                          {}
func verifYield()                           { time.Sleep(60 * time.Millisecond) }

// verifBackground natively hammers f from another goroutine (a stream of writers queueing on the lock)
func verifBackground(f func()) {
	go func() {
		for i := 0; i < 2000; i++ {
			f()
			time.Sleep(time.Millisecond)
		}
	}()
}
func verifHeldLocks() int                   { return 1 << 20 } // not observable natively
func verifParam(name string) int            { return verifDoc.Params[name] }

// verifPar natively runs both sides concurrently (for replay under the race detector).
func verifPar(f, g func()) {
	var wg sync.WaitGroup
	wg.Add(2)
	go func() { defer wg.Done(); f() }()
	go func() { defer wg.Done(); g() }()
	wg.Wait()
}

func verifEvent(kind string, a, b, c int) {}
func verifNodeOutcome(a, b int) int     { return nondetInt() }
func verifCtxErrSet() bool               { return false }
func verifCtxDoneChan(c chan struct{})   {}
