package __PKG__

// Native bodies of the harness intrinsics: a counterexample found by the solver is replayed by running the
// very same harness function against the real build, with nondet* reading the model's values in order.

import (
	"encoding/json"
	"fmt"
	"math/rand"
	"os"
	"strconv"
	"runtime"
	"strings"
	"reflect"
	"sync"
	"sync/atomic"
	"syscall"
	"time"
)

type verifItem struct {
	Kind string `json:"kind"`
	Val  string `json:"val"`
	Tag  string `json:"tag"`
}

type verifReplayDoc struct {
	Batch  []verifReplayDoc `json:"batch"`
	Entry  string         `json:"entry"`
	ID     string         `json:"id"`
	Vector []verifItem    `json:"vector"`
	Params map[string]int `json:"params"`
}

var (
	verifDoc       verifReplayDoc
	verifPos       int
	verifFailed    []string
	verifExhausted bool
	verifReached   []string
	verifMu        sync.Mutex
	verifParMode   = "seq"
)

type verifAssumeFailed struct{}

func verifLoad(path string) error {
	b, err := os.ReadFile(path)
	if err != nil {
		return err
	}
	verifPos = 0
	verifFailed = nil
	return json.Unmarshal(b, &verifDoc)
}

func verifNext(kind string) string {
	verifMu.Lock()
	defer verifMu.Unlock()
	// values chosen by the environment model (json/rand failures, clock readings) are not consumed natively
	for verifPos < len(verifDoc.Vector) && (vstress() && verifDoc.Vector[verifPos].Kind == "sched" || len(verifDoc.Vector[verifPos].Kind) > 4 && verifDoc.Vector[verifPos].Kind[:4] == "ext-" || verifDoc.Vector[verifPos].Kind == "now") {
		verifPos++
	}
	if verifPos >= len(verifDoc.Vector) {
		verifExhausted = true
		return ""
	}
	it := verifDoc.Vector[verifPos]
	verifPos++
	if it.Kind != kind {
		fmt.Printf("VERIF-DIVERGED nondet kind %s where vector has %s at %d\n", kind, it.Kind, verifPos-1)
	}
	return it.Val
}

func nondetInt() int {
	n, _ := strconv.ParseInt(verifNext("int"), 10, 64)
	return int(n)
}
func nondetBool() bool     { return verifNext("bool") == "true" }
func nondetString() string { return verifNext("string") }
func nondetText() string {
	v := verifNext("string")
	if len(v) > 3 && (v[0] == 's' || v[0] == 'S') && (v[1] == 't' || v[1] == 'T') && (v[2] == 'r' || v[2] == 'R') {
		digits := true
		for _, c := range v[3:] {
			if c < '0' || c > '9' {
				digits = false
			}
		}
		if digits {
			return " " + v + "\x01\"\\%d<\\u003c\xff "
		}
	}
	return v
}
func nondetBytes() []byte  { return []byte(verifNext("string")) }
func verifAssume(c bool) {
	if !c {
		panic(verifAssumeFailed{})
	}
}
func verifAssert(c bool, id string) {
	if !c {
		verifMu.Lock()
		verifFailed = append(verifFailed, id)
		verifMu.Unlock()
		fmt.Printf("VERIF-ASSERT-FAILED %s\n", id)
	}
}
func verifReach(id string)                  { verifMu.Lock(); verifReached = append(verifReached, id); verifMu.Unlock() }
func verifNote(msg string)                  { fmt.Println("VERIF-NOTE", msg) }
func verifNoteInt(msg string, v int)        { fmt.Println("VERIF-NOTE", msg, v) }
func verifSame(a, b any) bool               { return a == b }
func verifAnd(a, b bool) bool               { return a && b }
func verifOr(a, b bool) bool                { return a || b }
func verifImplies(a, b bool) bool           { return !a || b }
func verifIteInt(c bool, a, b int) int      { if c { return a }; return b }
func verifIteStr(c bool, a, b string) string { if c { return a }; return b }
func verifParBegin()                        {}
func verifParMid()                          {}
func verifParEnd()                          {}
func verifYield()                           { time.Sleep(60 * time.Millisecond) }

// verifBackground natively hammers f from another goroutine (a stream of writers queueing on the lock)
func verifBackground(f func()) {
	go func() {
		for i := 0; i < 2000; i++ {
			f()
			time.Sleep(time.Millisecond)
		}
	}()
}
func verifHeldLocks() int                   { return 1 << 20 } // not observable natively
func verifParam(name string) int            { return verifDoc.Params[name] }

// verifPar natively runs both sides concurrently (for replay under the race detector).
func verifPar(f, g func()) {
	var wg sync.WaitGroup
	wg.Add(2)
	go func() { defer wg.Done(); f() }()
	go func() { defer wg.Done(); g() }()
	wg.Wait()
}

func verifEvent(kind string, a, b, c int) {}
func verifNodeOutcome(a, b int) int     { return nondetInt() }
func verifCtxErrSet() bool               { return false }
func verifCtxDoneChan(c chan struct{})   {}



// ---- deterministic scheduler for replaying lock-granular interleavings -----------------------------------------
// For such replays the package's sync.Mutex / sync.RWMutex fields are rewritten (through the build overlay only) to
// verifMutex / verifRWMutex, whose operations are the schedule points of the symbolic exploration: at each of them
// the next "sched" decision of the counterexample says whether the running goroutine hands over the processor.

type verifThread struct {
	id      int
	wake    chan struct{}
	state   int // 0 ready, 1 blocked on lock, 2 done, 3 blocked in join
	lock    *verifRWMutex
	mode    byte
	skip    bool
	running bool
}

var vs struct {
	mu       sync.Mutex
	on       bool
	threads  []*verifThread
	cur      int
	switches int
	byG      map[string]*verifThread
}

func vgoid() string {
	var buf [64]byte
	n := runtime.Stack(buf[:], false)
	f := strings.Fields(string(buf[:n]))
	if len(f) > 1 {
		return f[1]
	}
	return ""
}

func vself() *verifThread {
	if vstress() {
		return nil
	}
	vs.mu.Lock()
	defer vs.mu.Unlock()
	if vs.byG == nil {
		return nil
	}
	return vs.byG[vgoid()]
}

func verifGoOrder(on bool)   {}
func verifMapOrder(on bool)  {}
func verifInterleave(on bool) {
	if vstress() {
		return
	}
	vs.mu.Lock()
	defer vs.mu.Unlock()
	vs.on = on
	if on && len(vs.threads) == 0 {
		t := &verifThread{id: 0, wake: make(chan struct{}, 1), running: true}
		vs.threads = []*verifThread{t}
		vs.byG = map[string]*verifThread{vgoid(): t}
		vs.cur = 0
	}
}

var verifStressWG sync.WaitGroup

func vstress() bool { return verifDoc.Params["_stress"] > 0 }

// vjitter widens race windows in stress replays
func vjitter() {
	if vstress() {
		if n := rand.Intn(4); n > 0 {
			time.Sleep(time.Duration(rand.Intn(150)) * time.Microsecond)
		} else {
			runtime.Gosched()
		}
	}
}

func verifGo(f func()) {
	if vstress() {
		verifStressWG.Add(1)
		go func() { defer verifStressWG.Done(); f() }()
		return
	}
	vs.mu.Lock()
	t := &verifThread{id: len(vs.threads), wake: make(chan struct{}, 1)}
	vs.threads = append(vs.threads, t)
	vs.mu.Unlock()
	go func() {
		vs.mu.Lock()
		vs.byG[vgoid()] = t
		vs.mu.Unlock()
		<-t.wake
		f()
		vs.mu.Lock()
		t.state = 2
		t.running = false
		vpickLocked(t.id)
		vs.mu.Unlock()
	}()
}

// vresumable: ready, or blocked on a lock that could now be taken
func vresumable(t *verifThread) bool {
	switch t.state {
	case 0:
		return true
	case 1:
		return t.lock.available(t.mode, t)
	case 3:
		for _, o := range vs.threads[1:] {
			if o.state != 2 {
				return false
			}
		}
		return true
	}
	return false
}

// vpickLocked hands the processor to the next runnable thread after index from (round robin); caller holds vs.mu
func vpickLocked(from int) {
	n := len(vs.threads)
	for k := 1; k <= n; k++ {
		o := vs.threads[(from+k)%n]
		if o.state == 0 {
			vs.cur = o.id
			o.running = true
			o.wake <- struct{}{}
			return
		}
	}
	for _, o := range vs.threads {
		if (o.state == 1 || o.state == 3) && vresumable(o) {
			o.state = 0
			vs.cur = o.id
			o.running = true
			o.wake <- struct{}{}
			return
		}
	}
	fmt.Println("VERIF-DEADLOCK scheduler: every goroutine is blocked")
}

func verifJoin() {
	if vstress() {
		verifStressWG.Wait()
		return
	}
	t := vself()
	vs.mu.Lock()
	t.state = 3
	t.running = false
	vpickLocked(t.id)
	vs.mu.Unlock()
	<-t.wake
}

// vpoint: a schedule point of thread t
func vpoint(t *verifThread) {
	vs.mu.Lock()
	if !vs.on {
		vs.mu.Unlock()
		return
	}
	if t.skip {
		t.skip = false
		vs.mu.Unlock()
		return
	}
	if vs.switches >= verifDoc.Params["_maxswitches"] {
		vs.mu.Unlock()
		return
	}
	other := -1
	n := len(vs.threads)
	for k := 1; k < n; k++ {
		o := vs.threads[(t.id+k)%n]
		if vresumable(o) && o.state != 3 || (o.state == 3 && vresumable(o)) {
			other = o.id
			break
		}
	}
	if other < 0 {
		vs.mu.Unlock()
		return
	}
	vs.mu.Unlock()
	sw := verifNext("sched") == "true"
	fmt.Printf("VERIF-SCHED T%d other=T%d switch=%v\n", t.id, other, sw)
	if !sw {
		return
	}
	vs.mu.Lock()
	vs.switches++
	t.skip = true
	t.running = false
	o := vs.threads[other]
	o.state = 0
	vs.cur = o.id
	o.running = true
	o.wake <- struct{}{}
	vs.mu.Unlock()
	<-t.wake
	t.skip = false
}

func vblock(t *verifThread, m *verifRWMutex, mode byte) {
	vs.mu.Lock()
	t.state, t.lock, t.mode = 1, m, mode
	t.running = false
	vpickLocked(t.id)
	vs.mu.Unlock()
	<-t.wake
}

type verifRWMutex struct {
	real sync.RWMutex
	w    bool
	r    int
}

type verifMutex struct{ verifRWMutex }

func (m *verifRWMutex) available(mode byte, self *verifThread) bool {
	if mode == 'W' {
		return !m.w && m.r == 0
	}
	if m.w {
		return false
	}
	return true
}

func (m *verifRWMutex) writerWaiting(self *verifThread) bool {
	for _, o := range vs.threads {
		if o != self && o.state == 1 && o.lock == m && o.mode == 'W' {
			return true
		}
	}
	return false
}

func (m *verifRWMutex) acquire(mode byte) {
	t := vself()
	if t == nil {
		vjitter()
		if mode == 'W' {
			m.real.Lock()
		} else {
			m.real.RLock()
		}
		return
	}
	for {
		vpoint(t)
		vs.mu.Lock()
		ok := m.available(mode, t) && !(mode == 'R' && m.writerWaiting(t))
		if ok {
			if mode == 'W' {
				m.w = true
			} else {
				m.r++
			}
			vs.mu.Unlock()
			return
		}
		vs.mu.Unlock()
		vblock(t, m, mode)
	}
}

func (m *verifRWMutex) release(mode byte) {
	t := vself()
	if t == nil {
		if mode == 'W' {
			m.real.Unlock()
		} else {
			m.real.RUnlock()
		}
		vjitter()
		return
	}
	vpoint(t)
	vs.mu.Lock()
	if mode == 'W' {
		m.w = false
	} else {
		m.r--
	}
	vs.mu.Unlock()
}

func (m *verifRWMutex) Lock()    { m.acquire('W') }
func (m *verifRWMutex) Unlock()  { m.release('W') }
func (m *verifRWMutex) RLock()   { m.acquire('R') }
func (m *verifRWMutex) RUnlock() { m.release('R') }

// verifSyncMap: sync.Map whose operations are schedule points (same decomposition of Range as the symbolic model:
// a snapshot of the keys, then one Load per key)
type verifSyncMap struct{ real sync.Map }

func vmapPoint() {
	if t := vself(); t != nil {
		vpoint(t)
	} else {
		vjitter()
	}
}
func (m *verifSyncMap) Load(k any) (any, bool) { vmapPoint(); return m.real.Load(k) }
func (m *verifSyncMap) Store(k, v any)         { vmapPoint(); m.real.Store(k, v) }
func (m *verifSyncMap) Delete(k any)           { vmapPoint(); m.real.Delete(k) }
func (m *verifSyncMap) LoadAndDelete(k any) (any, bool) { vmapPoint(); return m.real.LoadAndDelete(k) }
func (m *verifSyncMap) LoadOrStore(k, v any) (any, bool) { vmapPoint(); return m.real.LoadOrStore(k, v) }
func (m *verifSyncMap) Swap(k, v any) (any, bool)        { vmapPoint(); return m.real.Swap(k, v) }
func (m *verifSyncMap) Range(f func(k, v any) bool) {
	if vself() == nil {
		m.real.Range(f)
		return
	}
	vmapPoint()
	var keys []any
	m.real.Range(func(k, _ any) bool { keys = append(keys, k); return true })
	for _, k := range keys {
		v, ok := m.Load(k)
		if !ok {
			continue
		}
		if !f(k, v) {
			break
		}
	}
}
func verifFireTimer() {}

// ---- file system observation (native) ----
func verifFSFaults(on bool) {}
func verifTempDir() string {
	syscall.Umask(0o22) // A-umask: the file-system model creates files with the usual umask
	d, err := os.MkdirTemp("", "verif-fs-")
	if err != nil {
		panic(err)
	}
	return d
}
func verifFileMode(name string) int {
	fi, err := os.Stat(name)
	if err != nil {
		return -1
	}
	return int(fi.Mode().Perm())
}
func verifDirMode(name string) int { return verifFileMode(name) }
func verifNameLess(a, b string) bool { return a < b }
func verifFDContent(f *os.File) string {
	if f == nil {
		return ""
	}
	if fi, err := f.Stat(); err == nil && !fi.Mode().IsRegular() {
		return "" // a device standing in for a disk that takes no bytes (verifPlantPersistentWriteFault)
	}
	b, err := os.ReadFile(fmt.Sprintf("/proc/self/fd/%d", f.Fd()))
	if err != nil {
		b, _ = os.ReadFile(f.Name())
	}
	return string(b)
}

// verifPlantPersistentWriteFault: when every write of the solver's run failed (a full disk rather than a transient error),
// the file name becomes a link to /dev/full — opening succeeds, every write fails — and the descriptor the caller holds, if
// any, is swapped for one on it. Returns the descriptor to use.
func verifPlantPersistentWriteFault(name string, held *os.File) *os.File {
	n, all := 0, true
	for _, it := range verifDoc.Vector {
		if it.Kind == "ext-bool" && it.Tag == "write(2) fails" {
			n++
			all = all && it.Val == "true"
		}
	}
	if n < 2 || !all {
		return held
	}
	if _, err := os.Stat("/dev/full"); err != nil {
		return held
	}
	os.Remove(name)
	if os.Symlink("/dev/full", name) != nil {
		return held
	}
	if held != nil {
		held.Close()
		if f, err := os.OpenFile(name, os.O_APPEND|os.O_WRONLY, 0); err == nil {
			return f
		}
		return nil
	}
	return held
}
func verifFDIsName(f *os.File, name string) bool {
	if f == nil {
		return false
	}
	a, err1 := f.Stat()
	b, err2 := os.Stat(name)
	return err1 == nil && err2 == nil && os.SameFile(a, b)
}
func verifNoLocksHeld() bool { return true } // not observable natively
func verifHeldExclusive() int { return 1 << 20 }

var verifStdFiles []*os.File

// verifCaptureStd redirects os.Stdout / os.Stderr into temporary files (FileSink's pass-through targets)
func verifCaptureStd() {
	verifStdFiles = nil
	for i := 0; i < 2; i++ {
		f, err := os.CreateTemp("", "verif-std-")
		if err != nil {
			panic(err)
		}
		verifStdFiles = append(verifStdFiles, f)
	}
	os.Stdout, os.Stderr = verifStdFiles[0], verifStdFiles[1]
}

func verifStdout() string {
	out := ""
	for _, f := range verifStdFiles {
		b, _ := os.ReadFile(f.Name())
		out += string(b)
	}
	return out
}
func verifNameEq(a, b string) bool { return a == b }

// verifPlantFailingFile: *f becomes the write end of a pipe whose reader takes a few bytes and goes away: the next large
// write is accepted only in part and then fails with EPIPE
func verifPlantFailingFile(f **os.File) {
	r, w, err := os.Pipe()
	if err != nil {
		panic(err)
	}
	*f = w
	go func() {
		buf := make([]byte, 1000)
		r.Read(buf)
		time.Sleep(20 * time.Millisecond)
		r.Close()
	}()
}

func verifFDEndsWith(f *os.File, data string) bool {
	return strings.HasSuffix(verifFDContent(f), data)
}

// verifBig blows a string up beyond the capacity of a pipe (1 MiB), keeping distinct strings distinct
func verifBig(s string) string {
	return s + "|" + strings.Repeat("x", 1<<20) + "|" + s + "\n"
}

// verifNow: with clock instrumentation (the driver rewrites time.Now() in the package and the harness for the replay)
// the clock returns the solver's successive readings; once they are used up, or without a recorded reading, real time
func verifNow() time.Time {
	verifMu.Lock()
	defer verifMu.Unlock()
	p := verifPos
	for p < len(verifDoc.Vector) && len(verifDoc.Vector[p].Kind) > 4 && verifDoc.Vector[p].Kind[:4] == "ext-" {
		p++
	}
	if p < len(verifDoc.Vector) && verifDoc.Vector[p].Kind == "now" {
		n, err := strconv.ParseInt(verifDoc.Vector[p].Val, 10, 64)
		if err == nil {
			verifPos = p + 1
			return time.Unix(0, n)
		}
	}
	return time.Now()
}
func verifSince(t time.Time) time.Duration { return verifNow().Sub(t) }

// verifMaybeUnencodable: a value encoding/json refuses, exactly when the solver's run has the JSON encoder fail
// (environment record "json.Encode fails"); nil otherwise. Lets fault paths of the encoder be replayed natively.
func verifMaybeUnencodable() any {
	for _, it := range verifDoc.Vector {
		if it.Kind == "ext-fail" && it.Tag == "json.Encode fails" {
			return make(chan int)
		}
	}
	return nil
}

// verifAgeFile: an existing file is as old as the solver chose its modification time to be (if the code asked at all)
func verifAgeFile(name string) {
	for _, it := range verifDoc.Vector {
		if it.Kind == "ext-int" && it.Tag == "mtime" {
			if n, err := strconv.ParseInt(it.Val, 10, 64); err == nil {
				os.Chtimes(name, time.Unix(0, n), time.Unix(0, n))
			}
			return
		}
	}
}

// verifAgeFiles: the k-th file (in the order given: name order) gets the k-th modification time the code asked for by name
func verifAgeFiles(names []string) {
	k := 0
	for _, it := range verifDoc.Vector {
		if it.Kind == "ext-int" && it.Tag == "mtime-by-name" {
			if k >= len(names) {
				return
			}
			if n, err := strconv.ParseInt(it.Val, 10, 64); err == nil {
				os.Chtimes(names[k], time.Unix(0, n), time.Unix(0, n))
			}
			k++
		}
	}
}

// environment faults chosen by the solver that a native stand-in can act out. "ext-fail-on" records carry the input on
// which the modelled operation failed (the model makes failure a deterministic function of the input), so natively the
// stand-in fails on exactly those inputs.
func verifHasExtFail(tag string) bool {
	for _, it := range verifDoc.Vector {
		if (it.Kind == "ext-fail" || it.Kind == "ext-fail-on") && it.Tag == tag {
			return true
		}
	}
	return false
}

func verifFailsOn(tag string, input string) bool {
	for _, it := range verifDoc.Vector {
		if it.Kind == "ext-fail-on" && it.Tag == tag && it.Val == input {
			return true
		}
	}
	return false
}

// verifExtTrue: did the solver's run make the environment choice with this tag (at least once) come out true
func verifExtTrue(tag string) bool {
	for _, it := range verifDoc.Vector {
		if it.Kind == "ext-bool" && it.Tag == tag && it.Val == "true" {
			return true
		}
	}
	return false
}

// verifAtomicPointer: atomic.Pointer[T] whose operations are schedule points of the deterministic replay (the driver
// rewrites the package's atomic.Pointer fields to this type in the overlay copy, like the mutexes)
type verifAtomicPointer[T any] struct{ real atomic.Pointer[T] }

func (p *verifAtomicPointer[T]) Load() *T      { vmapPoint(); return p.real.Load() }
func (p *verifAtomicPointer[T]) Store(v *T)    { vmapPoint(); p.real.Store(v) }
func (p *verifAtomicPointer[T]) Swap(v *T) *T  { vmapPoint(); return p.real.Swap(v) }
func (p *verifAtomicPointer[T]) CompareAndSwap(old, new *T) bool {
	vmapPoint()
	return p.real.CompareAndSwap(old, new)
}

// verifOpenFile stands in for os.OpenFile in the package under test when the driver instruments the file system for a replay
// (jobs marked instrument_fs): the file is opened / created as asked, but when every write of the solver's run failed, the
// descriptor handed back is one on /dev/full, on which every write fails
func verifOpenFile(name string, flag int, perm os.FileMode) (*os.File, error) {
	f, err := os.OpenFile(name, flag, perm)
	if err != nil {
		return f, err
	}
	n, all := 0, true
	for _, it := range verifDoc.Vector {
		if it.Kind == "ext-bool" && it.Tag == "write(2) fails" {
			n++
			all = all && it.Val == "true"
		}
	}
	if n >= 2 && all {
		if full, e2 := os.OpenFile("/dev/full", os.O_WRONLY, 0); e2 == nil {
			f.Close()
			return full, nil
		}
	}
	return f, nil
}

// verifJSONEquivalent: both texts are a single newline-terminated line of valid JSON and decode to the same value
func verifJSONEquivalent(a, b string) bool {
	if a == b {
		return true
	}
	oneLine := func(s string) bool {
		return len(s) > 0 && s[len(s)-1] == '\n' && !strings.Contains(s[:len(s)-1], "\n")
	}
	var va, vb interface{}
	if !oneLine(a) || !oneLine(b) || json.Unmarshal([]byte(a), &va) != nil || json.Unmarshal([]byte(b), &vb) != nil {
		return false
	}
	return reflect.DeepEqual(va, vb)
}
