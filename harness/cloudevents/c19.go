package __PKG__

import (
	"context"
	"net/url"

	"github.com/hashicorp/eventlogger"
)

func H_C19_cloudevents_pairs() {
	sig := func(ctx context.Context, b []byte) (string, error) { return "sig", nil }
	f := &FormatterFilter{Source: &url.URL{Path: "src"}, SignEventTypes: []string{"t"}}
	if nondetBool() {
		f.Signer = sig
	}
	var p1, p2 interface{} = &cWithID{id: "id1"}, &cWithID{id: "id2"}
	if nondetBool() {
		// payloads without an ID(): the formatter makes up a fresh id for each event
		p1, p2 = &cPlain{}, &cPlain{}
	}
	e1 := &eventlogger.Event{Type: "t", Formatted: map[string][]byte{}, Payload: p1}
	e2 := e1
	if nondetBool() {
		e2 = &eventlogger.Event{Type: "t", Formatted: map[string][]byte{}, Payload: p2}
	}
	ctx := context.Background()
	k := symLen(0, 1)
	verifPar(func() { f.Process(ctx, e1) }, func() {
		if k == 0 {
			f.Process(ctx, e2)
		} else {
			f.Rotate(sig)
		}
	})
	verifReach("C19.cloudevents.end")
}
