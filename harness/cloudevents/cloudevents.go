package __PKG__

import (
	"bytes"
	"context"
	"encoding/base64"
	"encoding/json"
	"net/url"
	"time"

	"github.com/hashicorp/eventlogger"
)

type cErr struct{ tag string }

func (e *cErr) Error() string { return e.tag }

// payload kinds: plain, with ID(), with Data(), both
type cPlain struct{ v int }
type cWithID struct{ id string }
type cWithData struct{ d *cPlain }
type cWithBoth struct {
	id string
	d  *cPlain
}

// Data() may legitimately return nothing at all (a nil interface): the document then carries no data, not the payload
type cNilData struct{ v int }
type cIDNilData struct{ id string }

func (p *cNilData) Data() interface{}   { return nil }
func (p *cIDNilData) ID() string        { return p.id }
func (p *cIDNilData) Data() interface{} { return nil }

func (p *cWithID) ID() string          { return p.id }
func (p *cWithData) Data() interface{} { return p.d }
func (p *cWithBoth) ID() string        { return p.id }
func (p *cWithBoth) Data() interface{} { return p.d }

func symLen(lo, hi int) int {
	n := nondetInt()
	verifAssume(n >= lo)
	verifAssume(n <= hi)
	c := lo
	for c < n {
		c++
	}
	return c
}

type cSignCall struct {
	arg string
	sig string
	err error
}

func encodeDoc(ce Event, indent bool) string {
	buf := &bytes.Buffer{}
	enc := json.NewEncoder(buf)
	if indent {
		enc.SetIndent("", TextIndent)
	}
	if err := enc.Encode(ce); err != nil {
		verifAssume(false) // the reference encoding is only consulted where the real one succeeded
	}
	return buf.String()
}

func H_C18_Process() {
	f := &FormatterFilter{}
	// configuration
	srcKind := symLen(0, 2) // 0 nil, 1 empty, 2 non-empty
	src := ""
	switch srcKind {
	case 1:
		f.Source = &url.URL{}
	case 2:
		src = nondetString()
		verifAssume(src != "")
		f.Source = &url.URL{Path: src}
	}
	schemaKind := symLen(0, 2)
	schema := ""
	switch schemaKind {
	case 1:
		f.Schema = &url.URL{}
	case 2:
		schema = nondetString()
		verifAssume(schema != "")
		f.Schema = &url.URL{Path: schema}
	}
	f.Format = Format(nondetString())
	validFormat := verifOr(verifOr(f.Format == FormatJSON, f.Format == FormatText), f.Format == FormatUnspecified)
	// signer
	var signCalls []*cSignCall
	hasSigner := nondetBool()
	if hasSigner {
		f.Signer = func(ctx context.Context, b []byte) (string, error) {
			c := &cSignCall{arg: string(b), sig: nondetText()}
			if nondetBool() {
				c.err = &cErr{"sign"}
			}
			signCalls = append(signCalls, c)
			return c.sig, c.err
		}
	}
	nTypes := symLen(0, verifParam("T"))
	for i := 0; i < nTypes; i++ {
		f.SignEventTypes = append(f.SignEventTypes, nondetText())
	}
	// predicate: absent / true / false / error; records the cloudevent it is shown
	var seen *Event
	predKind := symLen(0, 4)
	predErr := &cErr{"pred"}
	if predKind > 0 {
		f.Predicate = func(ctx context.Context, ce interface{}) (bool, error) {
			if v, ok := ce.(Event); ok {
				seen = &v
			}
			switch predKind {
			case 1:
				return true, nil
			case 2:
				return false, nil
			case 4:
				return true, predErr
			}
			return false, predErr
		}
	}
	// the event
	etype := eventlogger.EventType(nondetText())
	verifAssume(etype != "")
	created := time.Unix(0, int64(nondetInt()))
	e := &eventlogger.Event{Type: etype, CreatedAt: created, Formatted: map[string][]byte{}}
	// another formatter (another pipeline, another configuration) may have stored a document under the same format key
	// already: this node stores its own all the same
	stale := nondetBool()
	if stale {
		e.Formatted[string(FormatJSON)] = []byte("someone else's json")
		e.Formatted[string(FormatText)] = []byte("someone else's text")
	}
	data := &cPlain{}
	pid := ""
	hasID := false
	var wantData interface{}
	switch symLen(0, 5) {
	case 4:
		e.Payload = &cNilData{}
		wantData = nil
	case 5:
		pid = nondetText()
		hasID = true
		e.Payload = &cIDNilData{id: pid}
		wantData = nil
	case 0:
		e.Payload = data
		wantData = data
	case 1:
		pid = nondetText()
		hasID = true
		p := &cWithID{id: pid}
		e.Payload = p
		wantData = p
	case 2:
		e.Payload = &cWithData{d: data}
		wantData = data
	case 3:
		pid = nondetText()
		hasID = true
		e.Payload = &cWithBoth{id: pid, d: data}
		wantData = data
	}
	listed := false
	for _, t := range f.SignEventTypes {
		listed = verifOr(listed, t == string(etype))
	}

	out, err := f.Process(context.Background(), e)

	validCfg := srcKind == 2 && schemaKind != 1
	if !validCfg || !validFormat {
		verifAssert(err != nil && out == nil, "C18.invalid-config-rejected")
		verifAssert(len(e.Formatted) == 0 || stale, "C18.invalid-config-stores-nothing")
		verifAssert(len(signCalls) == 0, "C18.invalid-config-no-signing")
		verifReach("C18.invalid")
		return
	}
	if hasID && pid == "" {
		verifAssert(err != nil && out == nil, "C18.empty-id-rejected")
		verifAssert(len(e.Formatted) == 0 || stale, "C18.empty-id-stores-nothing")
		verifReach("C18.emptyid")
		return
	}
	mustSign := hasSigner && listed
	if !mustSign {
		verifAssert(len(signCalls) == 0, "C18.unlisted-types-never-signed")
	} else {
		verifAssert(len(signCalls) <= 1, "C18.signed-at-most-once")
	}
	signFailed := len(signCalls) == 1 && signCalls[0].err != nil
	if signFailed {
		verifAssert(err != nil, "C18.sign-failure-is-an-error")
		verifAssert(out == nil, "C18.sign-failure-forwards-nothing")
		verifReach("C18.signfail")
		return
	}
	if predKind >= 3 {
		verifAssert(err != nil && out == nil, "C18.predicate-error-is-error")
	}
	if err != nil {
		// remaining error sources: encoder failure, id generation failure, predicate error
		verifAssert(out == nil, "C18.error-forwards-nothing")
		verifReach("C18.error")
		return
	}
	if predKind == 2 {
		verifAssert(out == nil, "C18.predicate-false-drops")
	} else {
		verifAssert(out == e, "C18.forwards-same-event")
	}
	// the stored document
	key := string(FormatJSON)
	indent := false
	ct := DataContentTypeCloudEvents
	if f.Format == FormatText {
		key, indent, ct = string(FormatText), true, DataContentTypeText
	}
	got, ok := e.Format(key)
	verifAssert(ok, "C18.stored-under-configured-format")
	verifAssert(len(e.Formatted) == 1 || stale, "C18.only-one-format-stored")
	if !ok {
		return
	}
	// the id: payload's, or fresh and non-empty (observed through the predicate when there is one)
	id := pid
	if !hasID {
		if seen == nil {
			verifReach("C18.ok-fresh-id-unobserved")
			return
		}
		id = seen.ID
		verifAssert(id != "", "C18.fresh-id-non-empty")
	}
	unsigned := Event{ID: id, Source: src, SpecVersion: "1.0", Type: string(etype), Data: wantData,
		DataContentType: ct, DataSchema: schema, Time: created}
	u := encodeDoc(unsigned, indent)
	if mustSign {
		verifAssert(len(signCalls) == 1, "C18.listed-type-signed-once")
		if len(signCalls) == 1 {
			verifAssert(signCalls[0].arg == u, "C18.signer-sees-exact-unsigned-document")
			signed := unsigned
			signed.Serialized = base64.RawURLEncoding.EncodeToString([]byte(u))
			signed.SerializedHmac = signCalls[0].sig
			verifAssert(string(got) == encodeDoc(signed, indent), "C18.signed-document-stored")
		}
		verifReach("C18.ok-signed")
	} else {
		verifAssert(string(got) == u, "C18.unsigned-document-stored")
		verifReach("C18.ok-unsigned")
	}
	if seen != nil {
		verifAssert(seen.ID == id && seen.Source == src && seen.SpecVersion == "1.0" && seen.Type == string(etype), "C18.required-attributes")
		verifAssert(seen.ID != "" && seen.Source != "" && seen.Type != "", "C18.required-attributes-non-empty")
	}
}

func H_C18_Rotate() {
	f := &FormatterFilter{}
	err := f.Rotate(nil)
	verifAssert(err != nil && f.Signer == nil, "C18.rotate-nil-rejected")
	called := 0
	s := func(ctx context.Context, b []byte) (string, error) { called++; return "sig", nil }
	err = f.Rotate(s)
	verifAssert(err == nil && f.Signer != nil, "C18.rotate-installs")
	verifReach("C18.rotate")
}

// two events through the same formatter: the first document must survive formatting the second
func H_C18_two_events() {
	src := nondetString()
	verifAssume(src != "")
	f := &FormatterFilter{Source: &url.URL{Path: src}}
	if nondetBool() {
		f.Format = FormatText
	}
	mk := func() (*eventlogger.Event, Event) {
		t := eventlogger.EventType(nondetText())
		verifAssume(t != "")
		id := nondetText()
		verifAssume(id != "")
		e := &eventlogger.Event{Type: t, CreatedAt: time.Unix(0, int64(nondetInt())), Formatted: map[string][]byte{}, Payload: &cWithID{id: id}}
		ct := DataContentTypeCloudEvents
		if f.Format == FormatText {
			ct = DataContentTypeText
		}
		return e, Event{ID: id, Source: src, SpecVersion: "1.0", Type: string(t), Data: e.Payload, DataContentType: ct, Time: e.CreatedAt}
	}
	eA, wantA := mk()
	eB, _ := mk()
	ctx := context.Background()
	_, errA := f.Process(ctx, eA)
	f.Process(ctx, eB)
	if errA == nil {
		key := string(FormatJSON)
		if f.Format == FormatText {
			key = string(FormatText)
		}
		got, ok := eA.Format(key)
		verifAssert(ok && string(got) == encodeDoc(wantA, f.Format == FormatText), "C18.stored-document-survives-later-events")
		verifReach("C18.two.end")
	}
}

// which event types get signed: decided with real strings (cvc5) so that case variants are in the input space
func H_C18_sign_listing() {
	src := "src"
	calls := 0
	f := &FormatterFilter{Source: &url.URL{Path: src}, Signer: func(ctx context.Context, b []byte) (string, error) { calls++; return "sig", nil }}
	listedType := nondetText()
	f.SignEventTypes = []string{listedType}
	t := eventlogger.EventType(nondetText())
	verifAssume(t != "")
	e := &eventlogger.Event{Type: t, Formatted: map[string][]byte{}, Payload: &cWithID{id: "id"}}
	_, err := f.Process(context.Background(), e)
	if err == nil {
		if string(t) == listedType {
			verifAssert(calls == 1, "C18.listing.listed-type-signed")
		} else {
			verifAssert(calls == 0, "C18.listing.unlisted-type-never-signed")
		}
		verifReach("C18.listing.end")
	}
}

// histories: whether an event gets signed depends only on the signer in force when it is processed and on its type being
// listed, never on what the node saw earlier (events of the same type before a signer existed, rotations, other types)
func H_C18_history() {
	callsA, callsB := 0, 0
	sA := func(ctx context.Context, b []byte) (string, error) { callsA++; return "sigA", nil }
	sB := func(ctx context.Context, b []byte) (string, error) { callsB++; return "sigB", nil }
	f := &FormatterFilter{Source: &url.URL{Path: "src"}, SignEventTypes: []string{"write", "read", "audit"}}
	cur := 0
	if nondetBool() {
		f.Signer = sA
		cur = 1
	}
	ctx := context.Background()
	n := verifParam("STEPS")
	for i := 0; i < n; i++ {
		op := symLen(0, 4)
		verifNoteInt("step", op)
		switch op {
		case 0, 1, 2:
			// the list is in no particular order: membership is what counts
			t := [3]eventlogger.EventType{"write", "audit", "other"}[op]
			a0, b0 := callsA, callsB
			e := &eventlogger.Event{Type: t, Formatted: map[string][]byte{}, Payload: &cWithID{id: "id"}}
			out, err := f.Process(ctx, e)
			if err != nil {
				// encoder / id-generation failures: covered by the single-step harness
				verifAssert(out == nil, "C18.history.error-forwards-nothing")
				return
			}
			verifAssert(out == e, "C18.history.forwarded")
			wa, wb := a0, b0
			if op != 2 && cur == 1 {
				wa++
			}
			if op != 2 && cur == 2 {
				wb++
			}
			verifAssert(callsA == wa && callsB == wb, "C18.history.signed-iff-listed-and-by-the-signer-in-force")
			got, _ := e.Format(string(FormatJSON))
			unsigned := Event{ID: "id", Source: "src", SpecVersion: "1.0", Type: string(t), Data: e.Payload, DataContentType: DataContentTypeCloudEvents, Time: e.CreatedAt}
			u := encodeDoc(unsigned, false)
			if op != 2 && cur != 0 {
				signed := unsigned
				signed.Serialized = base64.RawURLEncoding.EncodeToString([]byte(u))
				signed.SerializedHmac = [3]string{"", "sigA", "sigB"}[cur]
				verifAssert(string(got) == encodeDoc(signed, false), "C18.history.signed-document-stored")
			} else {
				verifAssert(string(got) == u, "C18.history.unsigned-document-stored")
			}
		case 3:
			if f.Rotate(sA) == nil {
				cur = 1
			}
		case 4:
			if f.Rotate(sB) == nil {
				cur = 2
			}
		}
	}
	verifReach("C18.history.end")
}


// fresh ids are unique per source, not only per node: two formatter nodes of one process (same source) never hand out the
// same id (A-random: the system's random strings do not repeat)
func H_C18_fresh_ids_across_nodes() {
	ids := [4]string{}
	k := 0
	mk := func(format Format) *FormatterFilter {
		return &FormatterFilter{Source: &url.URL{Path: "src"}, Format: format, Predicate: func(ctx context.Context, ce interface{}) (bool, error) {
			if v, ok := ce.(Event); ok && k < 4 {
				ids[k] = v.ID
				k++
			}
			return true, nil
		}}
	}
	f1, f2 := mk(FormatJSON), mk(FormatText)
	ctx := context.Background()
	for i := 0; i < 2; i++ {
		for _, f := range []*FormatterFilter{f1, f2} {
			e := &eventlogger.Event{Type: "t", Formatted: map[string][]byte{}, Payload: &cPlain{}}
			if _, err := f.Process(ctx, e); err != nil {
				return // id generation / encoder failures: the single-step harness's subject
			}
		}
	}
	verifAssert(k == 4, "C18.fresh-ids.all-observed")
	for i := 0; i < 4; i++ {
		verifAssert(ids[i] != "", "C18.fresh-ids.non-empty")
		for j := 0; j < i; j++ {
			verifAssert(ids[i] != ids[j], "C18.fresh-ids.unique-across-nodes-and-events")
		}
	}
	verifReach("C18.fresh-ids.end")
}
