package __PKG__

import (
	"context"
	"time"
)

// ---- harness for the event-order (all schedules) analysis of graph.process / doProcess ---------------

type eoCtx struct{ done chan struct{} }

func (c *eoCtx) Deadline() (time.Time, bool) { return time.Time{}, false }
func (c *eoCtx) Done() <-chan struct{}        { return c.done }
func (c *eoCtx) Err() error {
	if verifCtxErrSet() {
		return context.Canceled
	}
	return nil
}
func (c *eoCtx) Value(key any) any { return nil }

// eoNode: Process is a visible "call" event followed — possibly never — by a visible "return" with one of the
// four outcomes (pass same event / pass a new event / drop / error). Events carry an integer tag in Payload.
type eoNode struct {
	pipe, pos int
	typ       NodeType
	fresh     *Event
}

func (n *eoNode) Process(ctx context.Context, e *Event) (*Event, error) {
	verifEvent("call", n.pipe, n.pos, e.Payload.(int))
	// outcomes 0 and 1 both pass an event on; which event object is passed is data, not control: the exact
	// hand-over (same event / replaced event) is checked on the sequential harness H_C01_process_seq.
	switch verifNodeOutcome(n.pipe, n.pos) {
	case 0, 1:
		return e, nil
	case 2:
		return nil, nil
	}
	return nil, &vErr{"process"}
}
func (n *eoNode) Reopen() error  { return nil }
func (n *eoNode) Type() NodeType { return n.typ }

// H_EO_process: P pipelines with N_1..N_P nodes (parameters N0..N3), the collector is the main thread.
func H_EO_process() {
	P := verifParam("P")
	g := &graph{}
	ns := [5]int{verifParam("N0"), verifParam("N1"), verifParam("N2"), verifParam("N3"), verifParam("N4")}
	ids := [5]PipelineID{"p0", "p1", "p2", "p3", "p4"}
	for p := 0; p < P; p++ {
		var prev, root *linkedNode
		for i := 0; i < ns[p]; i++ {
			nd := &eoNode{pipe: p, pos: i, typ: NodeTypeFilter, fresh: &Event{Payload: 100*(p+1) + i + 1}}
			if i == ns[p]-1 {
				nd.typ = NodeTypeSink
			}
			l := &linkedNode{node: nd, nodeID: "n"}
			if prev != nil {
				prev.next = []*linkedNode{l}
			} else {
				root = l
			}
			prev = l
		}
		g.roots.Store(ids[p], &registeredPipeline{rootNode: root})
	}
	ctx := &eoCtx{done: make(chan struct{})}
	verifCtxDoneChan(ctx.done)
	e := &Event{Payload: 0}
	verifEvent("collector-start", 0, 0, 0)
	g.process(ctx, e)
	verifEvent("collector-return", 0, 0, 0)
}
