package __PKG__

import (
	"github.com/hashicorp/go-multierror"
	"context"
	"errors"
	"time"
)

// ---- C02: thresholds survive every other operation ------------------------------------------

func H_C02_thresholds_preserved() {
	K, L := verifParam("K"), verifParam("L")
	s := symBroker(K, L, false)
	// a second type u whose thresholds must never be influenced either
	u := EventType(nondetString())
	verifAssume(u != s.t)
	verifAssume(u != "")
	gu := &graph{successThreshold: nondetInt(), successThresholdSinks: nondetInt()}
	s.b.graphs[u] = gu
	thU, thsU := gu.successThreshold, gu.successThresholdSinks
	ctx := context.Background()
	switch symLen(0, 5) {
	case 0:
		d := s.symDefinition(L)
		s.b.RegisterPipeline(d.def, d.opts...)
	case 1:
		s.b.RemovePipeline(s.t, s.p.id)
	case 2:
		s.b.RemovePipelineAndNodes(ctx, s.t, s.p.id)
	case 3:
		s.b.RemoveNode(ctx, NodeID(nondetString()))
	case 4:
		s.b.RegisterNode(NodeID(nondetString()), newVNode())
	case 5:
		s.b.Reopen(ctx)
	}
	if s.hasG {
		th, ok := s.b.SuccessThreshold(s.t)
		ths, okS := s.b.SuccessThresholdSinks(s.t)
		verifAssert(ok && okS, "C02.preserved.type-still-known")
		verifAssert(th == s.th0, "C02.preserved.threshold")
		verifAssert(ths == s.ths0, "C02.preserved.threshold-sinks")
	}
	th, ok := s.b.SuccessThreshold(u)
	ths, _ := s.b.SuccessThresholdSinks(u)
	verifAssert(ok && th == thU && ths == thsU, "C02.preserved.other-type")
	verifReach("C02.preserved.end")
}

// ---- C07 -------------------------------------------------------------------------------------

func H_C07_RegisterNode() {
	K, L := verifParam("K"), verifParam("L")
	s := symBroker(K, L, false)
	id := NodeID(nondetString())
	nn := newVNode()
	if s.K > 0 && nondetBool() {
		// the node being registered may be one the broker already knows (under this id or another)
		nn = s.node[0]
	}
	var opts []Option
	polOpt := false
	var polStr RegistrationPolicy
	switch symLen(0, 2) {
	case 1:
		opts = append(opts, nil)
	case 2:
		polOpt = true
		polStr = RegistrationPolicy(nondetString())
		opts = append(opts, WithNodeRegistrationPolicy(polStr))
	}
	// which explicit node (if any) is being re-registered
	existed := false
	denied := false
	oldCount := 0
	for k := 0; k < s.K; k++ {
		if s.reg[k] {
			hit := id == s.ids[k]
			existed = verifOr(existed, hit)
			denied = verifOr(denied, verifAnd(hit, s.pol0[k] == DenyOverwrite))
			oldCount = verifIteInt(hit, s.rc0[k], oldCount)
		}
	}
	polValid := true
	if polOpt {
		polValid = verifOr(polStr == AllowOverwrite, polStr == DenyOverwrite)
	}
	err := s.b.RegisterNode(id, nn, opts...)
	spec := verifAnd(verifAnd(id != "", polValid), !denied)
	verifAssert((err == nil) == spec, "C07.node.succeeds-iff-allowed")
	if err != nil {
		s.allUnchanged("C07.node.fail")
		verifReach("C07.node.fail")
		return
	}
	nu, ok := s.b.nodes[id]
	verifAssert(ok, "C07.node.stored")
	if ok {
		want := AllowOverwrite
		if polOpt {
			want = polStr
		}
		verifAssert(nu.registrationPolicy == want, "C07.node.policy-applied")
		verifAssert(verifSame(nu.node, Node(nn)), "C07.node.object-swapped")
		verifAssert(nu.referenceCount == verifIteInt(existed, oldCount, 0), "C07.node.count-kept")
	}
	// re-registering a node id affects only pipelines registered afterwards
	s.pipeUnchanged(&s.p, "C07.node.pipes")
	s.pipeUnchanged(&s.o, "C07.node.pipes")
	for k := 0; k < s.K; k++ {
		if s.reg[k] && id != s.ids[k] {
			s.nodeUnchanged(k, "C07.node.others")
		}
	}
	verifReach("C07.node.ok")
}

// the same pipeline id registered for another event type is independent
func H_C07_pipeline_other_type() {
	K, L := verifParam("K"), verifParam("L")
	s := symBroker(K, L, false)
	u := EventType(nondetString())
	verifAssume(u != s.t)
	verifAssume(u != "")
	gu := &graph{}
	s.b.graphs[u] = gu
	l1 := &linkedNode{node: newVNode(), nodeID: s.ids[0]}
	l0 := &linkedNode{node: newVNode(), nodeID: s.ids[0], next: []*linkedNode{l1}}
	rp := &registeredPipeline{rootNode: l0, registrationPolicy: symPolicy()}
	pol := rp.registrationPolicy
	gu.roots.Store(s.p.id, rp)
	// every mutator addressed at (type t, pipeline id) leaves the same-id pipeline of another type alone
	switch symLen(0, 2) {
	case 0:
		// ... and is decided without looking at it: whatever policy the other type's pipeline has
		d := s.symDefinition(L)
		err := s.b.RegisterPipeline(d.def, d.opts...)
		verifAssert((err == nil) == d.specOK, "C07.othertype.decision-ignores-other-types")
	case 1:
		s.b.RemovePipeline(s.t, s.p.id)
	case 2:
		s.b.RemovePipelineAndNodes(context.Background(), s.t, s.p.id)
	}
	var got *registeredPipeline
	n := 0
	gu.roots.Range(func(k PipelineID, v *registeredPipeline) bool {
		n++
		if k == s.p.id {
			got = v
		}
		return true
	})
	verifAssert(n == 1 && got == rp, "C07.othertype.entry-kept")
	verifAssert(rp.registrationPolicy == pol && rp.rootNode == l0 && len(l0.next) == 1 && l0.next[0] == l1, "C07.othertype.untouched")
	g2, ok := s.b.graphs[u]
	verifAssert(ok && g2 == gu, "C07.othertype.graph-kept")
	verifReach("C07.othertype.end")
}

// ---- C20 -------------------------------------------------------------------------------------

func H_C20_Reopen() {
	K, L := verifParam("K"), verifParam("L")
	s := symBroker(K, L, false)
	// a second event type with one pipeline of two nodes
	u := EventType(nondetString())
	verifAssume(u != s.t)
	hasU := nondetBool()
	var q [2]*linkedNode
	if hasU {
		gu := &graph{}
		s.b.graphs[u] = gu
		q[1] = &linkedNode{node: newVNode(), nodeID: NodeID(nondetString())}
		q[0] = &linkedNode{node: newVNode(), nodeID: NodeID(nondetString()), next: []*linkedNode{q[1]}}
		gu.roots.Store(PipelineID(nondetString()), &registeredPipeline{rootNode: q[0], registrationPolicy: AllowOverwrite})
	}
	// two pipelines of one type may share a node object that is not their last (a common head filter / formatter): each
	// pipeline's remaining nodes are reopened all the same
	if s.p.present && s.o.present && s.p.n >= 2 && s.o.n >= 2 && nondetBool() {
		s.o.ln[0].node = s.p.ln[0].node
		verifNote("shared head node")
	}
	// collect all linked nodes (each object once) and give each a symbolic Reopen outcome
	var all []*vNode
	add := func(n *vNode) {
		for _, x := range all {
			if x == n {
				return
			}
		}
		all = append(all, n)
	}
	if s.p.present {
		for i := 0; i < s.p.n; i++ {
			add(s.p.ln[i].node.(*vNode))
		}
	}
	if s.o.present {
		for i := 0; i < s.o.n; i++ {
			add(s.o.ln[i].node.(*vNode))
		}
	}
	if hasU {
		all = append(all, q[0].node.(*vNode), q[1].node.(*vNode))
	}
	nfail := 0
	for _, n := range all {
		if nondetBool() {
			n.reopenErr = &vErr{"reopen"}
			nfail++
		}
	}
	// the statement makes no exception for a context that is done: every node is reopened all the same
	var rctx context.Context = context.Background()
	if nondetBool() {
		rctx = verifCancelledCtx(false)
	}
	err := s.b.Reopen(rctx)
	if nondetBool() {
		// a second Reopen does all of it again, whatever the first one found
		for _, n := range all {
			n.reopenCalls = 0
		}
		err = s.b.Reopen(rctx)
		verifReach("C20.reopen.twice")
	}
	if nfail == 0 {
		verifAssert(err == nil, "C20.reopen.nil-when-no-failure")
		for _, n := range all {
			verifAssert(n.reopenCalls >= 1, "C20.reopen.every-node-reached")
		}
		verifReach("C20.reopen.ok")
	} else {
		verifAssert(err != nil, "C20.reopen.error-when-some-node-fails")
		if nfail == 1 {
			for _, n := range all {
				if n.reopenErr != nil {
					verifAssert(errors.Is(err, n.reopenErr), "C20.reopen.carries-the-failure")
				}
			}
			verifReach("C20.reopen.one-failure")
		}
	}
	s.allUnchanged("C20.reopen.frame")
}

// ---- C01 (sequential parts) -------------------------------------------------------------------

type vProcessCall struct {
	calls int
	g     *graph
	e     *Event
}

var vProc vProcessCall

// stands in for (*graph).process in H_C01_Send: records its arguments
func verifStubProcess(g *graph, ctx context.Context, e *Event) (Status, error) {
	vProc.calls++
	vProc.g = g
	vProc.e = e
	return Status{}, nil
}

func H_C01_Send() {
	K, L := verifParam("K"), verifParam("L")
	s := symBroker(K, L, false)
	vProc = vProcessCall{}
	now := time.Unix(0, int64(nondetInt()))
	s.b.StopTimeAt(now)
	q := EventType(nondetString())
	// what is sent is whatever the caller hands over: some value, nothing at all, or an event of some other life
	var payload any = &vErr{"payload"}
	switch symLen(0, 3) {
	case 1:
		payload = nil
	case 2:
		payload = &Event{Type: EventType(nondetString()), Payload: &vErr{"inner"}}
	case 3:
		payload = (*Event)(nil)
	}
	_, err := s.b.Send(context.Background(), q, payload)
	known := false
	if s.hasG {
		known = q == s.t
	}
	if !known {
		verifAssert(err != nil, "C01.send.unknown-type-is-error")
		verifAssert(vProc.calls == 0, "C01.send.unknown-type-no-dispatch")
		verifReach("C01.send.unknown")
	} else {
		verifAssert(vProc.calls == 1, "C01.send.dispatched-once")
		verifAssert(vProc.g == s.g, "C01.send.graph-of-the-type-only")
		e := vProc.e
		verifAssert(e != nil, "C01.send.event")
		if e != nil {
			verifAssert(e.Type == q, "C01.send.event-type")
			verifAssert(verifSame(e.Payload, payload), "C01.send.event-payload")
			verifAssert(!verifSame(e, payload), "C01.send.event-is-new")
			verifAssert(e.CreatedAt.Equal(now), "C01.send.event-created-at")
			verifAssert(e.Formatted != nil && len(e.Formatted) == 0, "C01.send.event-empty-format-table")
		}
		verifReach("C01.send.known")
	}
	s.allUnchanged("C01.send.frame")
}

func H_C01_linkNodes() {
	L := verifParam("LL")
	n := symLen(0, L)
	m := symLen(0, L)
	var nodes []Node
	var ids []NodeID
	var objs [8]*vNode
	for i := 0; i < n; i++ {
		objs[i] = &vNode{}
		nodes = append(nodes, objs[i])
	}
	for i := 0; i < m; i++ {
		ids = append(ids, NodeID(nondetString()))
	}
	root, err := linkNodes(nodes, ids)
	verifAssert((err != nil) == (n == 0 || m == 0 || n != m), "C01.link.error-iff-bad-lengths")
	if err != nil {
		verifAssert(root == nil, "C01.link.error-nil-root")
		return
	}
	l := root
	for i := 0; i < n; i++ {
		verifAssert(l != nil, "C01.link.length")
		if l == nil {
			return
		}
		verifAssert(verifSame(l.node, Node(objs[i])), "C01.link.node-order")
		verifAssert(l.nodeID == ids[i], "C01.link.id-order")
		if i+1 < n {
			verifAssert(len(l.next) == 1, "C01.link.one-child")
			l = l.next[0]
		} else {
			verifAssert(len(l.next) == 0, "C01.link.last-childless")
		}
	}
	verifReach("C01.link.ok")
}

// ---- C01/C02/C03: the dispatch protocol on one (deterministic) schedule, all outcome vectors ------

type pNode struct {
	pipe, pos int
	typ       NodeType
	outcome   int // 0 pass same event, 1 pass a new event, 2 drop, 3 error, 4 error together with an event, 5/6 the node's own context.DeadlineExceeded / Canceled
	calls     int
	got       *Event
	ret       *Event
	err       error
	// what the format table of the received event looked like on arrival
	gotFmtNil bool
	gotFmtLen int
}

func (n *pNode) Process(ctx context.Context, e *Event) (*Event, error) {
	n.calls++
	n.got = e
	n.gotFmtNil, n.gotFmtLen = e.Formatted == nil, len(e.Formatted)
	switch n.outcome {
	case 0:
		n.ret = e
	case 1:
		n.ret = &Event{Type: e.Type, Payload: n}
	case 2:
		n.ret = nil
	case 4:
		// an error is an error, whatever comes with it
		n.ret = &Event{Type: e.Type, Payload: n}
		n.err = &vErr{"process"}
	case 5:
		// a node's own context-type error (its private deadline), while the Send's context is alive, is a warning like any other
		n.ret = nil
		n.err = context.DeadlineExceeded
	case 6:
		n.ret = nil
		n.err = context.Canceled
	case 7:
		// an error that is itself a collection of errors is still one warning: the error the node returned
		n.ret = nil
		n.err = multierror.Append(nil, &vErr{"cause-1"}, &vErr{"cause-2"})
	case 8:
		n.ret = nil
		n.err = &multierror.Error{}
	default:
		n.ret = nil
		n.err = &vErr{"process"}
	}
	return n.ret, n.err
}
func (n *pNode) Reopen() error  { return nil }
func (n *pNode) Type() NodeType { return n.typ }

type vCtx struct {
	done  chan struct{}
	err   error
	cause error
}

func (c *vCtx) VerifCause() error {
	if c.cause != nil {
		return c.cause
	}
	return c.err
}

func (c *vCtx) Deadline() (time.Time, bool) { return time.Time{}, false }
func (c *vCtx) Done() <-chan struct{}        { return c.done }
func (c *vCtx) Err() error                   { return c.err }
func (c *vCtx) Value(key any) any            { return nil }

func containsErr(ws []error, e error) bool {
	for _, w := range ws {
		if w == e {
			return true
		}
	}
	return false
}

func countID(ids []NodeID, id NodeID) int {
	n := 0
	for _, x := range ids {
		n += verifIteInt(x == id, 1, 0)
	}
	return n
}

func H_C01_process_seq() {
	P := symLen(0, verifParam("P"))
	N := verifParam("N")
	g := &graph{successThreshold: nondetInt(), successThresholdSinks: nondetInt()}
	var nodes [4][5]*pNode
	var lns [4][5]*linkedNode
	var lens [4]int
	for p := 0; p < P; p++ {
		ln := symLen(2, N)
		lens[p] = ln
		var prev *linkedNode
		for i := 0; i < ln; i++ {
			nd := &pNode{pipe: p, pos: i, typ: NodeType(nondetInt()), outcome: nondetInt()}
			verifAssume(nd.outcome >= 0)
			verifAssume(nd.outcome <= 8)
			if i == ln-1 {
				verifAssume(nd.typ == NodeTypeSink)
			}
			l := &linkedNode{node: nd, nodeID: NodeID(nondetString())}
			if prev != nil {
				prev.next = []*linkedNode{l}
			}
			prev = l
			nodes[p][i], lns[p][i] = nd, l
		}
		g.roots.Store(PipelineID(nondetString()), &registeredPipeline{rootNode: lns[p][0]})
	}
	// distinct pipeline ids are implied by being separate registrations: assume the stores did not overwrite
	cnt := 0
	g.roots.Range(func(_ PipelineID, _ *registeredPipeline) bool { cnt++; return true })
	verifAssume(cnt == P)
	e := &Event{Type: "t", Formatted: map[string][]byte{}}
	ctx := &vCtx{}
	st, err := g.process(ctx, e)
	nOK, nSink, nErr := 0, 0, 0
	for p := 0; p < P; p++ {
		alive := true
		in := e
		for i := 0; i < lens[p]; i++ {
			nd := nodes[p][i]
			if !alive {
				verifAssert(nd.calls == 0, "C01.order.not-invoked-after-stop")
				continue
			}
			verifAssert(nd.calls == 1, "C01.order.invoked-exactly-once")
			verifAssert(nd.got == in, "C01.order.receives-predecessor-result")
			// ... as it was returned: the stubs' new events have no format table, the sent one an empty table
			verifAssert(nd.gotFmtNil == (in != e) && nd.gotFmtLen == 0, "C01.order.receives-it-as-returned")
			switch {
			case nd.err != nil:
				alive = false
				nErr++
				verifAssert(containsErr(st.Warnings, nd.err), "C02.status.warning-is-node-error")
			case nd.ret == nil:
				alive = false
				nOK++
				verifAssert(countID(st.complete, lns[p][i].nodeID) >= 1, "C02.status.filtered-node-complete")
				if nd.typ == NodeTypeSink {
					nSink++
				}
			case i == lens[p]-1:
				nOK++
				verifAssert(countID(st.complete, lns[p][i].nodeID) >= 1, "C02.status.sink-complete")
				verifAssert(countID(st.completeSinks, lns[p][i].nodeID) >= 1, "C02.status.sink-complete-sinks")
				nSink++
			default:
				in = nd.ret
			}
		}
	}
	verifAssert(len(st.complete) == nOK, "C02.status.complete-count")
	verifAssert(len(st.completeSinks) == nSink, "C02.status.complete-sinks-count")
	verifAssert(len(st.Warnings) == nErr, "C02.status.warnings-count")
	verifAssert(nOK+nErr == P, "C02.status.one-entry-per-pipeline")
	verifAssert((err != nil) == verifOr(nOK < g.successThreshold, nSink < g.successThresholdSinks), "C02.send.error-iff-below-threshold")
	verifReach("C01.process.end")
}
