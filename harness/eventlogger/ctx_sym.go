package __PKG__

import "context"

// verifCancelledCtx: a context that is already done; optionally cancelled with a cause of its own (context.Cause != Err)
func verifCancelledCtx(withCause bool) context.Context {
	c := &vCtx{done: make(chan struct{}), err: context.Canceled}
	close(c.done)
	if withCause {
		c.cause = &vErr{"cause"}
	}
	return c
}
