package __PKG__

import (
	"context"
)


// eNode re-enters the broker from the chosen callback
type eNode struct {
	typ   NodeType
	b     *Broker
	where int // 1 Process, 2 Close, 3 Reopen
	ctx   context.Context
	calls int
	// same: re-enter through the very pipeline the event is travelling in (once: the nested event passes straight through),
	// as the gated filter does when it flushes an expired group of its own event type
	same bool
}

func (n *eNode) reenter() {
	n.calls++
	// give a queued writer (if any) the chance to take its place in the lock queue
	verifYield()
	if n.same {
		if n.calls == 1 {
			n.b.Send(n.ctx, "t", "from-node")
		}
		return
	}
	n.b.Send(n.ctx, "other", "from-node")
}

func (n *eNode) Process(ctx context.Context, e *Event) (*Event, error) {
	if n.where == 1 {
		n.reenter()
	}
	return e, nil
}
func (n *eNode) Reopen() error {
	if n.where == 3 {
		n.reenter()
	}
	return nil
}
func (n *eNode) Type() NodeType { return n.typ }
func (n *eNode) Close(ctx context.Context) error {
	if n.where == 2 {
		n.reenter()
	}
	return nil
}

// every Broker call, with a node that calls Send on the same broker from Process, Close or Reopen, must return
// (no goroutine may request the broker lock while holding it; a recursive read lock deadlocks behind a queued writer)
func H_C12_reentry() {
	b, _ := NewBroker()
	ctx := &vCtx{}
	where := symLen(1, 3)
	f := &eNode{typ: NodeTypeFormatter, b: b, where: where, ctx: ctx, same: nondetBool()}
	s := &rNode{typ: NodeTypeSink}
	b.RegisterNode("f", f)
	b.RegisterNode("s", s)
	b.RegisterNode("of", &rNode{typ: NodeTypeFormatter})
	b.RegisterPipeline(Pipeline{PipelineID: "p", EventType: "t", NodeIDs: []NodeID{"f", "s"}})
	b.RegisterPipeline(Pipeline{PipelineID: "o", EventType: "other", NodeIDs: []NodeID{"of", "s"}})
	op := symLen(0, 13)
	verifNoteInt("reenter-from", where)
	verifNoteInt("op", op)
	// with concurrent writers waiting on the lock (native replay only; symbolically the lock contract flags it)
	verifBackground(func() { b.SetSuccessThreshold("bg", 1) })
	switch op {
	case 0:
		b.Send(ctx, "t", "payload")
	case 1:
		b.RegisterNode("f", f)
	case 2:
		b.RegisterPipeline(Pipeline{PipelineID: "p", EventType: "t", NodeIDs: []NodeID{"f", "s"}})
	case 3:
		b.RemovePipeline("t", "p")
	case 4:
		b.RemovePipelineAndNodes(ctx, "t", "p")
	case 5:
		b.RemovePipeline("t", "p")
		b.RemoveNode(ctx, "f")
	case 6:
		b.SetSuccessThreshold("t", 1)
	case 7:
		b.SetSuccessThresholdSinks("t", 1)
	case 8:
		b.SuccessThreshold("t")
	case 9:
		b.IsAnyPipelineRegistered("t")
	case 10:
		b.Reopen(ctx)
	case 11:
		b.RemoveNode(ctx, "f")
	case 12:
		// the node is registered but no longer in use, then its id is registered again
		b.RemovePipeline("t", "p")
		b.RegisterNode("f", &rNode{typ: NodeTypeFormatter})
	case 13:
		b.RemovePipeline("t", "p")
		b.RegisterNode("f", f, WithNodeRegistrationPolicy(DenyOverwrite))
		b.RegisterNode("f", f)
	}
	verifAssert(verifNoLocksHeld(), "C12.lock-released-after-call")
	// the broker is still usable afterwards
	b.SetSuccessThreshold("t", 0)
	verifReach("C12.reentry.end")
}

// every exported Broker method, on its successful and on each of its early-return paths, leaves no lock behind (neither the
// broker's nor a graph's threshold lock): afterwards a Send, a getter and a setter of the same type all return
func H_C12_every_call_releases() {
	b, ctx := everyCallBroker()
	op := symLen(0, 27)
	verifNoteInt("op", op)
	everyCall(b, ctx, op)
	verifAssert(verifNoLocksHeld(), "C12.every-call.lock-released-after-call")
	// all of these would hang behind a lock left behind
	b.SetSuccessThreshold("t", 0)
	b.SetSuccessThresholdSinks("t", 0)
	b.SuccessThreshold("t")
	b.SuccessThresholdSinks("t")
	b.Send(ctx, "t", "payload")
	b.RegisterNode("after", &rNode{typ: NodeTypeSink})
	verifReach("C12.every-call.end")
}

// everyCallBroker: the registry the every-call harnesses start from
func everyCallBroker() (*Broker, *vCtx) {
	b, _ := NewBroker()
	ctx := &vCtx{}
	f, s := &rNode{typ: NodeTypeFormatter}, &rNode{typ: NodeTypeSink}
	b.RegisterNode("f", f)
	b.RegisterNode("s", s)
	b.RegisterNode("idle", &rNode{typ: NodeTypeSink})
	b.RegisterPipeline(Pipeline{PipelineID: "p", EventType: "t", NodeIDs: []NodeID{"f", "s"}})
	b.RegisterPipeline(Pipeline{PipelineID: "deny", EventType: "t", NodeIDs: []NodeID{"f", "s"}}, WithPipelineRegistrationPolicy(DenyOverwrite))
	b.RegisterNode("denied", &rNode{typ: NodeTypeSink}, WithNodeRegistrationPolicy(DenyOverwrite))
	return b, ctx
}

// everyCall: call number op of the catalogue (every exported Broker method on its success and early-return paths)
func everyCall(b *Broker, ctx *vCtx, op int) {
	switch op {
	case 0:
		b.Send(ctx, "t", "payload")
	case 1:
		b.Send(ctx, "unknown", "payload")
	case 2:
		b.Reopen(ctx)
	case 3:
		b.RegisterNode("new", &rNode{typ: NodeTypeSink})
	case 4:
		b.RegisterNode("denied", &rNode{typ: NodeTypeSink})
	case 5:
		b.RegisterNode("", &rNode{typ: NodeTypeSink})
	case 6:
		b.RegisterNode("x", &rNode{typ: NodeTypeSink}, WithNodeRegistrationPolicy("bogus"))
	case 7:
		b.RemoveNode(ctx, "idle")
	case 8:
		b.RemoveNode(ctx, "f") // in use
	case 9:
		b.RemoveNode(ctx, "unknown")
	case 10:
		b.RemoveNode(ctx, "")
	case 11:
		b.RegisterPipeline(Pipeline{PipelineID: "q", EventType: "t", NodeIDs: []NodeID{"f", "s"}})
	case 12:
		b.RegisterPipeline(Pipeline{PipelineID: "deny", EventType: "t", NodeIDs: []NodeID{"f", "s"}})
	case 13:
		b.RegisterPipeline(Pipeline{PipelineID: "q", EventType: "t", NodeIDs: []NodeID{"f", "unknown"}})
	case 14:
		b.RegisterPipeline(Pipeline{PipelineID: "q", EventType: "t", NodeIDs: []NodeID{"s", "f"}}) // invalid shape
	case 15:
		b.RegisterPipeline(Pipeline{PipelineID: "", EventType: "t", NodeIDs: []NodeID{"f", "s"}})
	case 16:
		b.RegisterPipeline(Pipeline{PipelineID: "q", EventType: "t", NodeIDs: []NodeID{"f", "s"}}, WithPipelineRegistrationPolicy("bogus"))
	case 17:
		b.RemovePipeline("t", "p")
	case 18:
		b.RemovePipeline("unknown", "p")
	case 19:
		b.RemovePipeline("t", "")
	case 20:
		b.RemovePipelineAndNodes(ctx, "t", "p")
	case 21:
		b.RemovePipelineAndNodes(ctx, "t", "unknown")
	case 22:
		b.RemovePipelineAndNodes(ctx, "unknown", "p")
	case 23:
		b.SetSuccessThreshold("t", nondetInt())
	case 24:
		b.SetSuccessThresholdSinks("t", nondetInt())
	case 25:
		b.SuccessThreshold(EventType(verifIteStr(nondetBool(), "t", "unknown")))
	case 26:
		b.SuccessThresholdSinks(EventType(verifIteStr(nondetBool(), "t", "unknown")))
	case 27:
		b.IsAnyPipelineRegistered(EventType(verifIteStr(nondetBool(), "t", "unknown")))
	}
}

// the same catalogue racing with a writer that queues on the broker lock: a call that takes the read lock twice (directly or
// through another exported method) deadlocks behind the queued writer
func H_C12_every_call_vs_writer() {
	b, ctx := everyCallBroker()
	op := symLen(0, 27)
	verifNoteInt("op", op)
	k := symLen(0, 1)
	verifInterleave(true)
	verifGo(func() { everyCall(b, ctx, op) })
	verifGo(func() {
		if k == 0 {
			b.SetSuccessThreshold("w", 1)
		} else {
			b.RegisterNode("w", &rNode{typ: NodeTypeSink})
		}
	})
	verifJoin()
	verifInterleave(false)
	b.SetSuccessThreshold("t", 0)
	verifReach("C12.every-call-vs-writer.end")
}
