package __PKG__

import "context"

// ---- registry histories against a reference model (C05, C06, C07, C01) ------------------------------------------------
//
// The inductive-step harnesses start from an arbitrary registry, but only over the fields the current code has; state a
// change adds (a cache, a counter kept redundantly) starts at its zero value there. This harness complements them: every
// history of H operations over a small universe, from a symbolic pre-state built through the API, is compared after each
// step with a reference model written from the property statements (ids -> node object and policy; pipeline id -> listed
// ids, node objects linked at registration, policy).

type hPipe struct {
	ids  []NodeID
	objs []*cNode
	deny bool
	on   bool
}

type hNodeReg struct {
	obj  *cNode
	deny bool
	on   bool
}

type hModel struct {
	b     *Broker
	ctx   context.Context
	nodes [4]hNodeReg // f, s, s2, x (a filter)
	pipes [3]hPipe    // p@t: f,s (or x,f,s)   q@t: f,s2   p@u: the same pipeline id under another event type (f,s)
	all   []*cNode    // every node object ever handed to the broker
	wantP []int       // expected Process count per object
	wantC []int       // expected Close count per object (only for objects the model knows must be closed)
}

var hIDs = [4]NodeID{"f", "s", "s2", "x"}
var hPIDs = [3]PipelineID{"p", "q", "p"}
var hTypes = [3]EventType{"t", "t", "u"}

func hIdx(id NodeID) int {
	for i, x := range hIDs {
		if x == id {
			return i
		}
	}
	return -1
}

func (m *hModel) newObj(slot int) *cNode {
	n := &cNode{typ: NodeTypeSink}
	if slot == 0 {
		n.typ = NodeTypeFormatter
	}
	if slot == 3 {
		n.typ = NodeTypeFilter
	}
	m.all = append(m.all, n)
	m.wantP = append(m.wantP, 0)
	m.wantC = append(m.wantC, 0)
	return n
}

func (m *hModel) objIdx(n *cNode) int {
	for i, x := range m.all {
		if x == n {
			return i
		}
	}
	return -1
}

func (m *hModel) listed(slot int) bool {
	for _, p := range m.pipes {
		if !p.on {
			continue
		}
		for _, id := range p.ids {
			if id == hIDs[slot] {
				return true
			}
		}
	}
	return false
}

func hPol(deny bool) Option {
	if deny {
		return WithNodeRegistrationPolicy(DenyOverwrite)
	}
	return WithNodeRegistrationPolicy(AllowOverwrite)
}

func hPPol(deny bool) Option {
	if deny {
		return WithPipelineRegistrationPolicy(DenyOverwrite)
	}
	return WithPipelineRegistrationPolicy(AllowOverwrite)
}

func (m *hModel) registerNode(slot int, deny bool, tag string) {
	obj := m.newObj(slot)
	err := m.b.RegisterNode(hIDs[slot], obj, hPol(deny))
	r := &m.nodes[slot]
	if r.on && r.deny {
		verifAssert(err != nil, tag+".register-node.deny-is-sticky")
		return
	}
	verifAssert(err == nil, tag+".register-node.accepted")
	*r = hNodeReg{obj: obj, deny: deny, on: true}
}

func (m *hModel) registerPipeline(pi int, deny bool, tag string) {
	m.registerPipelineAs(pi, false, deny, tag)
}

// registerPipelineAs: long selects the longer definition of p (a filter in front: a strict superset of the short one)
func (m *hModel) registerPipelineAs(pi int, long bool, deny bool, tag string) {
	ids := []NodeID{"f", "s"}
	if pi == 1 {
		ids = []NodeID{"f", "s2"}
	} else if long && pi == 0 {
		ids = []NodeID{"x", "f", "s"}
	}
	err := m.b.RegisterPipeline(Pipeline{PipelineID: hPIDs[pi], EventType: hTypes[pi], NodeIDs: ids}, hPPol(deny))
	p := &m.pipes[pi]
	allOn := true
	var objs []*cNode
	for _, id := range ids {
		r := m.nodes[hIdx(id)]
		allOn = allOn && r.on
		objs = append(objs, r.obj)
	}
	if (p.on && p.deny) || !allOn {
		verifAssert(err != nil, tag+".register-pipeline.rejected")
		return
	}
	verifAssert(err == nil, tag+".register-pipeline.accepted")
	*p = hPipe{ids: ids, objs: objs, deny: deny, on: true}
}

func (m *hModel) removePipeline(pi int, tag string) {
	m.b.RemovePipeline(hTypes[pi], hPIDs[pi])
	m.pipes[pi].on = false
}

func (m *hModel) removePipelineAndNodes(pi int, tag string) {
	ok, err := m.b.RemovePipelineAndNodes(m.ctx, hTypes[pi], hPIDs[pi])
	p := &m.pipes[pi]
	if !p.on {
		verifAssert(!ok && err != nil, tag+".rpan.unknown-pipeline-is-false-and-error")
		return
	}
	verifAssert(ok, tag+".rpan.true-once-started")
	p.on = false
	for _, id := range p.ids {
		slot := hIdx(id)
		if m.nodes[slot].on && !m.listed(slot) {
			m.wantC[m.objIdx(m.nodes[slot].obj)]++
			m.nodes[slot].on = false
		}
	}
}

func (m *hModel) removeNode(slot int, tag string) {
	err := m.b.RemoveNode(m.ctx, hIDs[slot])
	r := &m.nodes[slot]
	if !r.on || m.listed(slot) {
		verifAssert(err != nil, tag+".remove-node.refused-when-unknown-or-in-use")
		return
	}
	verifAssert(err == nil, tag+".remove-node.accepted-when-unused")
	m.wantC[m.objIdx(r.obj)]++
	r.on = false
}

func (m *hModel) send(tag string) {
	m.b.Send(&vCtx{}, "t", "payload") // a live context: a Send under a done context may legitimately skip pipelines
	m.b.Send(&vCtx{}, "u", "payload")
	for _, p := range m.pipes {
		if p.on {
			for _, o := range p.objs {
				m.wantP[m.objIdx(o)]++
			}
		}
	}
}

// reopen: C20 over histories — every node object of every currently registered pipeline is reopened at least once
func (m *hModel) reopen(tag string) {
	before := make([]int, len(m.all))
	for i, n := range m.all {
		before[i] = n.reopens
	}
	err := m.b.Reopen(m.ctx)
	verifAssert(err == nil, tag+".reopen-nil-when-no-node-fails")
	for _, p := range m.pipes {
		if !p.on {
			continue
		}
		for _, o := range p.objs {
			verifAssert(o.reopens > before[m.objIdx(o)], tag+".reopen-reaches-every-node-of-every-registered-pipeline")
		}
	}
}

// agree: everything a client can observe agrees with the model
func (m *hModel) agree(tag string) {
	for slot, r := range m.nodes {
		nu, ok := m.b.nodes[hIDs[slot]]
		verifAssert(ok == r.on, tag+".node-registered-iff-model")
		if ok && r.on {
			verifAssert(nu.node == Node(r.obj), tag+".registered-object")
		}
	}
	any := m.pipes[0].on || m.pipes[1].on
	verifAssert(m.b.IsAnyPipelineRegistered("t") == any, tag+".is-any-pipeline-registered")
	verifAssert(m.b.IsAnyPipelineRegistered("u") == m.pipes[2].on, tag+".is-any-pipeline-registered-other-type")
	for i, n := range m.all {
		verifAssert(n.procs == m.wantP[i], tag+".deliveries")
		verifAssert(n.closes == m.wantC[i], tag+".closes")
	}
}

func H_C05_history_vs_model() {
	m := &hModel{ctx: &vCtx{}}
	if nondetBool() {
		// every call of the history gets a context that is already done: registry semantics do not depend on it
		m.ctx = verifCancelledCtx(false)
	}
	m.b, _ = NewBroker()
	// pre-state through the API: the three ids registered with symbolic policies, p and/or q registered
	for slot := 0; slot < 2; slot++ {
		m.registerNode(slot, nondetBool(), "C05.history.pre")
	}
	m.registerNode(2, false, "C05.history.pre")
	m.registerNode(3, false, "C05.history.pre")
	pre := symLen(0, 3)
	if pre == 1 || pre == 3 {
		m.registerPipeline(0, nondetBool(), "C05.history.pre")
	}
	if pre == 2 || pre == 3 {
		m.registerPipeline(1, nondetBool(), "C05.history.pre")
	}
	if nondetBool() {
		// the same pipeline id registered (DenyOverwrite) under another event type: an independent pipeline
		m.registerPipeline(2, true, "C05.history.pre")
	}
	H := verifParam("H")
	for i := 0; i < H; i++ {
		op := symLen(0, 15)
		verifNoteInt("op", op)
		tag := "C05.history"
		switch op {
		case 14:
			m.reopen(tag)
		case 15:
			m.removePipelineAndNodes(2, tag)
		case 12:
			m.registerPipelineAs(0, true, nondetBool(), tag)
		case 13:
			m.removeNode(3, tag)
		case 0, 1, 2:
			m.registerNode(op, nondetBool(), tag)
		case 3, 4:
			m.registerPipeline(op-3, nondetBool(), tag)
		case 5, 6:
			m.removePipeline(op-5, tag)
		case 7, 8:
			m.removePipelineAndNodes(op-7, tag)
		case 9, 10:
			m.removeNode(op-9, tag)
		case 11:
			m.send(tag)
		}
		m.agree(tag)
	}
	m.send("C05.history.final")
	m.agree("C05.history.final")
	m.reopen("C05.history.final")
	brokerInvariant(m.b, "C05.history.inv")
	verifReach("C05.history.end")
}

// pipeline shapes: sequences of 1..N distinct nodes with arbitrary node types (incl. unknown values) are accepted by
// RegisterPipeline exactly when the last node is a sink and the node directly before it formats; an accepted pipeline is
// traversed end to end by a Send, a rejected one is not registered
func H_C05_shapes() {
	N := verifParam("N")
	b, _ := NewBroker()
	n := symLen(1, N)
	var ids []NodeID
	var nodes [6]*vNode
	names := [6]NodeID{"n0", "n1", "n2", "n3", "n4", "n5"}
	for i := 0; i < n; i++ {
		nodes[i] = &vNode{typ: NodeType(nondetInt())}
		b.RegisterNode(names[i], nodes[i])
		ids = append(ids, names[i])
	}
	err := b.RegisterPipeline(Pipeline{PipelineID: "p", EventType: "t", NodeIDs: ids})
	want := false
	if n >= 2 {
		last, prev := nodes[n-1].typ, nodes[n-2].typ
		want = verifAnd(last == NodeTypeSink, verifOr(prev == NodeTypeFormatter, prev == NodeTypeFormatterFilter))
	}
	verifAssert((err == nil) == want, "C05.shapes.accepted-iff-sink-after-formatter")
	verifAssert(b.IsAnyPipelineRegistered("t") == (err == nil), "C05.shapes.registered-iff-accepted")
	if err == nil {
		b.Send(&vCtx{}, "t", "payload")
		for i := 0; i < n; i++ {
			verifAssert(nodes[i].procCalls == 1, "C05.shapes.accepted-pipeline-traversed-end-to-end")
		}
		verifReach("C05.shapes.accepted")
	}
	verifReach("C05.shapes.end")
}

// ---- which object a removal closes: the registered node if it is a Closer, otherwise the first Closer found by unwrapping --

type wPlain struct{ typ NodeType }

func (n *wPlain) Process(ctx context.Context, e *Event) (*Event, error) { return e, nil }
func (n *wPlain) Reopen() error                                        { return nil }
func (n *wPlain) Type() NodeType                                       { return n.typ }

// wWrap decorates another node; it may or may not have a Close of its own (wWrapCloser)
type wWrap struct {
	wPlain
	inner Node
}

func (n *wWrap) Unwrap() Node { return n.inner }

type wWrapCloser struct {
	wWrap
	closes int
	err    error
}

func (n *wWrapCloser) Close(ctx context.Context) error { n.closes++; return n.err }

func H_C06_close_target() {
	b, _ := NewBroker()
	ctx := &vCtx{}
	innerCloser := &vNode{typ: NodeTypeSink}
	if nondetBool() {
		innerCloser.closeErr = &vErr{"inner-close"}
	}
	innerPlain := &wPlain{typ: NodeTypeSink}
	var inner Node = innerCloser
	innerIsCloser := nondetBool()
	if !innerIsCloser {
		inner = innerPlain
	}
	// 0: the node itself; 1: a non-closing decorator around it; 2: a decorator with its own Close; 3: 1 around 2; 4: 2 around 1
	kind := symLen(0, 4)
	verifNoteInt("kind", kind)
	plainWrap := &wWrap{wPlain: wPlain{typ: NodeTypeSink}}
	closerWrap := &wWrapCloser{wWrap: wWrap{wPlain: wPlain{typ: NodeTypeSink}}}
	if nondetBool() {
		closerWrap.err = &vErr{"wrapper-close"}
	}
	var reg Node
	wantWrapper, wantInner := 0, 0
	var wantErr error
	switch kind {
	case 0:
		reg = inner
		if innerIsCloser {
			wantInner, wantErr = 1, innerCloser.closeErr
		}
	case 1:
		plainWrap.inner = inner
		reg = plainWrap
		if innerIsCloser {
			wantInner, wantErr = 1, innerCloser.closeErr
		}
	case 2:
		closerWrap.inner = inner
		reg = closerWrap
		wantWrapper, wantErr = 1, closerWrap.err
	case 3:
		closerWrap.inner = inner
		plainWrap.inner = closerWrap
		reg = plainWrap
		wantWrapper, wantErr = 1, closerWrap.err
	case 4:
		plainWrap.inner = inner
		closerWrap.inner = plainWrap
		reg = closerWrap
		wantWrapper, wantErr = 1, closerWrap.err
	}
	b.RegisterNode("w", reg)
	b.RegisterNode("f", &wPlain{typ: NodeTypeFormatter})
	var err error
	if nondetBool() {
		err = b.RemoveNode(ctx, "w")
	} else {
		b.RegisterPipeline(Pipeline{PipelineID: "p", EventType: "t", NodeIDs: []NodeID{"f", "w"}})
		_, err = b.RemovePipelineAndNodes(ctx, "t", "p")
	}
	verifAssert(closerWrap.closes == wantWrapper, "C06.close-target.outermost-closer-closed-once")
	verifAssert(innerCloser.closeCalls == wantInner, "C06.close-target.inner-closed-only-when-it-is-the-first-closer")
	verifAssert((err != nil) == (wantErr != nil), "C06.close-target.close-error-reported")
	_, still := b.nodes["w"]
	verifAssert(!still, "C06.close-target.unregistered")
	verifReach("C06.close-target.end")
}

// node objects shared by several pipelines of one type: each pipeline's traversal invokes them, so a node listed by k
// registered pipelines is invoked k times by one Send, and the shared sink id is reported complete k times
func H_C01_shared_nodes() {
	b, _ := NewBroker()
	f, s, f2 := &cNode{typ: NodeTypeFormatter}, &cNode{typ: NodeTypeSink}, &cNode{typ: NodeTypeFormatter}
	b.RegisterNode("f", f)
	b.RegisterNode("s", s)
	b.RegisterNode("f2", f2)
	k := 0
	if nondetBool() {
		b.RegisterPipeline(Pipeline{PipelineID: "p", EventType: "t", NodeIDs: []NodeID{"f", "s"}})
		k++
	}
	if nondetBool() {
		b.RegisterPipeline(Pipeline{PipelineID: "q", EventType: "t", NodeIDs: []NodeID{"f", "s"}})
		k++
	}
	kf2 := 0
	if nondetBool() {
		b.RegisterPipeline(Pipeline{PipelineID: "r", EventType: "t", NodeIDs: []NodeID{"f2", "s"}})
		kf2++
	}
	// the same ids under another type do not count
	b.RegisterPipeline(Pipeline{PipelineID: "p", EventType: "other", NodeIDs: []NodeID{"f", "s"}})
	verifAssume(k+kf2 > 0)
	b.SetSuccessThreshold("t", k+kf2)
	b.SetSuccessThresholdSinks("t", k+kf2)
	st, err := b.Send(&vCtx{}, "t", "payload")
	verifAssert(f.procs == k && f2.procs == kf2, "C01.shared.formatter-invoked-once-per-listing-pipeline")
	verifAssert(s.procs == k+kf2, "C01.shared.sink-invoked-once-per-listing-pipeline")
	verifAssert(len(st.complete) == k+kf2 && len(st.completeSinks) == k+kf2 && len(st.Warnings) == 0, "C02.shared.one-entry-per-pipeline")
	for _, id := range st.complete {
		verifAssert(id == "s", "C02.shared.complete-names-the-sink")
	}
	verifAssert(err == nil, "C02.shared.thresholds-met-no-error")
	verifReach("C01.shared.end")
}

// two overlapping Sends of one type share no mutable dispatch state: whatever graph.process and doProcess write while
// fanning an event out is private to that Send (lockset analysis over the two calls; replayed under -race)
func H_C01_two_sends() {
	b, _ := NewBroker()
	b.RegisterNode("f", &rNode{typ: NodeTypeFormatter})
	b.RegisterNode("s", &rNode{typ: NodeTypeSink})
	b.RegisterNode("s2", &rNode{typ: NodeTypeSink})
	b.RegisterPipeline(Pipeline{PipelineID: "p", EventType: "t", NodeIDs: []NodeID{"f", "s"}})
	b.RegisterPipeline(Pipeline{PipelineID: "q", EventType: "t", NodeIDs: []NodeID{"f", "s2"}})
	if nondetBool() {
		b.RegisterPipeline(Pipeline{PipelineID: "r", EventType: "t", NodeIDs: []NodeID{"f", "s"}})
	}
	ctx := &vCtx{}
	verifPar(func() { b.Send(ctx, "t", "one") }, func() { b.Send(ctx, "t", "two") })
	verifReach("C01.two-sends.end")
}

// a node id listed at several positions of one pipeline: the pipeline is built position by position (the node is invoked
// once per position it is listed at), and the shape rule applies to the positions as given, not to the set of ids
func H_C05_repeated_ids() {
	N := verifParam("NR")
	b, _ := NewBroker()
	n := symLen(2, N)
	var nodes [5]*vNode
	names := [5]NodeID{"n0", "n1", "n2", "n3", "n4"}
	for i := 0; i < n; i++ {
		nodes[i] = &vNode{typ: NodeType(nondetInt())}
		verifAssume(nodes[i].typ >= 0 && nodes[i].typ <= 4)
		b.RegisterNode(names[i], nodes[i])
	}
	// position i lists its own node or repeats an earlier position's
	var ids []NodeID
	var at [5]int
	for i := 0; i < n; i++ {
		at[i] = symLen(0, i)
		if at[i] != i {
			at[i] = at[at[i]]
		}
		ids = append(ids, names[at[i]])
	}
	err := b.RegisterPipeline(Pipeline{PipelineID: "p", EventType: "t", NodeIDs: ids})
	last, prev := nodes[at[n-1]].typ, nodes[at[n-2]].typ
	want := verifAnd(last == NodeTypeSink, verifOr(prev == NodeTypeFormatter, prev == NodeTypeFormatterFilter))
	verifAssert((err == nil) == want, "C05.repeated.accepted-iff-last-positions-well-formed")
	if err == nil {
		b.Send(&vCtx{}, "t", "payload")
		for j := 0; j < n; j++ {
			listed := 0
			for i := 0; i < n; i++ {
				if at[i] == j {
					listed++
				}
			}
			verifAssert(nodes[j].procCalls == listed, "C01.repeated.node-invoked-once-per-position")
		}
		verifReach("C05.repeated.accepted")
	}
	verifReach("C05.repeated.end")
}


// which object a Reopen reaches: the registered node itself (decorators included), whatever it wraps
type wWrapReopener struct {
	wWrap
	reopens int
	err     error
}

func (n *wWrapReopener) Reopen() error { n.reopens++; return n.err }

func H_C20_reopen_target() {
	b, _ := NewBroker()
	inner := &vNode{typ: NodeTypeSink}
	outer := &wWrapReopener{wWrap: wWrap{wPlain: wPlain{typ: NodeTypeSink}, inner: inner}}
	if nondetBool() {
		outer.err = &vErr{"outer-reopen"}
	}
	// the decorator is the sink of one pipeline, the plain node the sink of another
	b.RegisterNode("f", &wPlain{typ: NodeTypeFormatter})
	b.RegisterNode("w", outer)
	b.RegisterNode("plain", inner)
	b.RegisterPipeline(Pipeline{PipelineID: "p", EventType: "t", NodeIDs: []NodeID{"f", "w"}})
	if nondetBool() {
		b.RegisterPipeline(Pipeline{PipelineID: "q", EventType: "t", NodeIDs: []NodeID{"f", "plain"}})
	}
	err := b.Reopen(context.Background())
	verifAssert(outer.reopens >= 1, "C20.reopen-target.registered-decorator-reopened")
	verifAssert((err != nil) == (outer.err != nil), "C20.reopen-target.decorators-failure-reported")
	verifReach("C20.reopen-target.end")
}

// removals of ids that are not (or no longer) registered are no-ops: whatever bookkeeping a Send relies on still agrees with
// the registry afterwards — the registered pipelines are traversed, and nothing panics
func H_C01_send_after_odd_removals() {
	b, _ := NewBroker()
	f, s, s2 := &cNode{typ: NodeTypeFormatter}, &cNode{typ: NodeTypeSink}, &cNode{typ: NodeTypeSink}
	b.RegisterNode("f", f)
	b.RegisterNode("s", s)
	b.RegisterNode("s2", s2)
	pOn, qOn := false, false
	n := symLen(1, 4)
	for i := 0; i < n; i++ {
		switch symLen(0, 4) {
		case 0:
			b.RegisterPipeline(Pipeline{PipelineID: "p", EventType: "t", NodeIDs: []NodeID{"f", "s"}})
			pOn = true
		case 1:
			b.RegisterPipeline(Pipeline{PipelineID: "q", EventType: "t", NodeIDs: []NodeID{"f", "s2"}})
			qOn = true
		case 2:
			b.RemovePipeline("t", "p")
			pOn = false
		case 3:
			b.RemovePipeline("t", "q")
			qOn = false
		case 4:
			b.RemovePipeline("t", "never-registered")
		}
	}
	verifAssume(pOn || qOn)
	st, _ := b.Send(&vCtx{}, "t", "payload")
	want := 0
	if pOn {
		want++
	}
	if qOn {
		want++
	}
	verifAssert(s.procs == b2i(pOn) && s2.procs == b2i(qOn) && f.procs == want, "C01.odd-removals.registered-pipelines-traversed")
	verifAssert(len(st.complete) == want, "C02.odd-removals.one-entry-per-pipeline")
	verifAssert(b.IsAnyPipelineRegistered("t"), "C05.odd-removals.is-any")
	verifReach("C01.odd-removals.end")
}

// a node need not be a pointer: any value with the three methods is a Node, whether or not its type has equality
type valNode struct {
	labels []string
	c      *int
	typ    NodeType
	err    error
}

func (n valNode) Process(ctx context.Context, e *Event) (*Event, error) {
	if n.typ == NodeTypeSink {
		return nil, nil
	}
	return e, nil
}
func (n valNode) Reopen() error  { *n.c++; return n.err }
func (n valNode) Type() NodeType { return n.typ }
func (n valNode) Name() string   { return "val" }

func H_C20_value_nodes() {
	b, _ := NewBroker()
	var cf, cs, cs2 int
	f := valNode{labels: []string{"f"}, c: &cf, typ: NodeTypeFormatter}
	s := valNode{labels: []string{"s"}, c: &cs, typ: NodeTypeSink}
	s2 := valNode{c: &cs2, typ: NodeTypeSink}
	fail := nondetBool()
	if fail {
		s2.err = &vErr{"s2-reopen"}
	}
	b.RegisterNode("f", f)
	b.RegisterNode("s", s)
	b.RegisterNode("s2", s2)
	verifAssert(b.RegisterPipeline(Pipeline{PipelineID: "p", EventType: "t", NodeIDs: []NodeID{"f", "s"}}) == nil, "C05.value-nodes.registered")
	two := nondetBool()
	if two {
		b.RegisterPipeline(Pipeline{PipelineID: "q", EventType: "t", NodeIDs: []NodeID{"f", "s2"}})
	}
	err := b.Reopen(context.Background())
	verifAssert(cf >= 1 && cs >= 1 && (!two || cs2 >= 1), "C20.value-nodes.every-node-reopened")
	verifAssert((err != nil) == (two && fail), "C20.value-nodes.error-iff-a-node-failed")
	st, serr := b.Send(&vCtx{}, "t", "payload")
	verifAssert(serr == nil && len(st.complete) >= 1, "C01.value-nodes.send-delivers")
	verifReach("C20.value-nodes.end")
}
