package __PKG__

import (
	"context"
	"errors"
)

// concretise a bounded symbolic length by case split
func symLen(lo, hi int) int {
	n := nondetInt()
	verifAssume(n >= lo)
	verifAssume(n <= hi)
	c := lo
	for c < n {
		c++
	}
	return c
}

// typeOfID: the Type() of the node currently registered under id (0 if none) — fork-free
func (s *vState) typeOfID(id NodeID) int {
	t := 0
	for k := 0; k < s.K; k++ {
		if s.reg[k] {
			t = verifIteInt(id == s.ids[k], int(s.node[k].typ), t)
		}
	}
	return t
}

type vDef struct {
	def     Pipeline
	n       int
	opts    []Option
	polOpt  bool
	polStr  RegistrationPolicy
	specOK  bool
}

// symDefinition builds an arbitrary RegisterPipeline request for (s.t, s.p.id) and its specification.
func (s *vState) symDefinition(maxLen int) *vDef {
	d := &vDef{}
	d.def = Pipeline{PipelineID: s.p.id, EventType: s.t}
	d.n = symLen(0, maxLen)
	noEmpty := true
	allReg := true
	for i := 0; i < d.n; i++ {
		id := NodeID(nondetString())
		d.def.NodeIDs = append(d.def.NodeIDs, id)
		noEmpty = verifAnd(noEmpty, id != "")
		allReg = verifAnd(allReg, s.listedAmongRegistered(id))
	}
	switch symLen(0, 2) {
	case 1:
		d.opts = append(d.opts, nil)
	case 2:
		d.polOpt = true
		d.polStr = RegistrationPolicy(nondetString())
		if nondetBool() {
			d.opts = append(d.opts, nil)
		}
		d.opts = append(d.opts, WithPipelineRegistrationPolicy(d.polStr))
	}
	shape := false
	if d.n >= 2 {
		last := s.typeOfID(d.def.NodeIDs[d.n-1])
		prev := s.typeOfID(d.def.NodeIDs[d.n-2])
		shape = verifAnd(last == int(NodeTypeSink), verifOr(prev == int(NodeTypeFormatter), prev == int(NodeTypeFormatterFilter)))
	}
	polValid := true
	if d.polOpt {
		polValid = verifOr(d.polStr == AllowOverwrite, d.polStr == DenyOverwrite)
	}
	denied := false
	if s.p.present {
		denied = s.p.pol == DenyOverwrite
	}
	ok := verifAnd(s.p.id != "", s.t != "")
	ok = verifAnd(ok, d.n > 0)
	ok = verifAnd(ok, noEmpty)
	ok = verifAnd(ok, allReg)
	ok = verifAnd(ok, shape)
	ok = verifAnd(ok, polValid)
	ok = verifAnd(ok, !denied)
	d.specOK = ok
	return d
}

// checkRegistered asserts that (t,pid) now holds exactly the pipeline described by d.
func (s *vState) checkRegistered(d *vDef, tag string) {
	rp := s.lookupPipe(s.p.id)
	verifAssert(rp != nil, tag+".registered")
	if rp == nil {
		return
	}
	want := AllowOverwrite
	if d.polOpt {
		want = d.polStr
	}
	verifAssert(rp.registrationPolicy == want, tag+".policy-applied")
	l := rp.rootNode
	for i := 0; i < d.n; i++ {
		verifAssert(l != nil, tag+".list-length")
		if l == nil {
			return
		}
		verifAssert(l.nodeID == d.def.NodeIDs[i], tag+".list-id-order")
		nu, ok := s.b.nodes[d.def.NodeIDs[i]]
		verifAssert(ok, tag+".list-node-registered")
		if ok {
			verifAssert(verifSame(l.node, nu.node), tag+".list-node-is-registered-object")
		}
		if i+1 < d.n {
			verifAssert(len(l.next) == 1, tag+".list-one-child")
			if len(l.next) != 1 {
				return
			}
			l = l.next[0]
		} else {
			verifAssert(len(l.next) == 0, tag+".list-last-childless")
		}
	}
}

// ---- C05 -----------------------------------------------------------------------------------

func H_C05_RegisterPipeline() {
	K, L := verifParam("K"), verifParam("L")
	s := symBroker(K, L, false)
	d := s.symDefinition(L)
	err := s.b.RegisterPipeline(d.def, d.opts...)
	verifAssert((err == nil) == d.specOK, "C05.register.iff-wellformed")
	if err != nil {
		s.allUnchanged("C05.register.fail")
		verifReach("C05.register.fail")
	} else {
		s.checkRegistered(d, "C05.register.ok")
		s.pipeUnchanged(&s.o, "C05.register.ok.other")
		verifReach("C05.register.ok")
	}
	// IsAnyPipelineRegistered agrees with the registry
	any := s.b.IsAnyPipelineRegistered(s.t)
	verifAssert(any == (s.lookupPipe(s.p.id) != nil || s.lookupPipe(s.o.id) != nil), "C05.isany.agrees")
}

func H_C05_IsAny() {
	K, L := verifParam("K"), verifParam("L")
	s := symBroker(K, L, false)
	q := EventType(nondetString())
	got := s.b.IsAnyPipelineRegistered(q)
	want := false
	if s.hasG {
		want = verifAnd(q == s.t, s.p.present || s.o.present)
	}
	verifAssert(got == want, "C05.isany.iff")
	s.allUnchanged("C05.isany")
	verifReach("C05.isany.end")
}

func H_C05_RegisterNode_fail() {
	K, L := verifParam("K"), verifParam("L")
	s := symBroker(K, L, false)
	id := NodeID(nondetString())
	var opts []Option
	if nondetBool() {
		opts = append(opts, WithNodeRegistrationPolicy(RegistrationPolicy(nondetString())))
	}
	nn := newVNode()
	err := s.b.RegisterNode(id, nn, opts...)
	if err != nil {
		s.allUnchanged("C05.registernode.fail")
		_, ok := s.b.nodes[id]
		verifAssert(ok == s.listedAmongRegistered(id), "C05.registernode.fail.not-added")
		verifReach("C05.registernode.fail")
	}
}

func H_C05_RemoveNode_fail() {
	K, L := verifParam("K"), verifParam("L")
	s := symBroker(K, L, false)
	id := NodeID(nondetString())
	// Close never fails here: C05 has no fault quantifier (a failing Close is C06's subject)
	err := s.b.RemoveNode(context.Background(), id)
	if err != nil {
		s.allUnchanged("C05.removenode.fail")
		verifReach("C05.removenode.fail")
	}
}

func H_C05_RemovePipelineAndNodes_false() {
	K, L := verifParam("K"), verifParam("L")
	s := symBroker(K, L, false)
	t := EventType(nondetString())
	id := PipelineID(nondetString())
	ok, err := s.b.RemovePipelineAndNodes(context.Background(), t, id)
	if !ok {
		verifAssert(err != nil, "C05.rpan.false-has-error")
		s.allUnchanged("C05.rpan.false")
		verifReach("C05.rpan.false")
	}
}

// ---- C06 -----------------------------------------------------------------------------------

func symCloseErrs(s *vState) {
	for k := 0; k < s.K; k++ {
		if nondetBool() {
			s.node[k].closeErr = &vErr{"close"}
		}
	}
}

func H_C06_RegisterPipeline() {
	K, L := verifParam("K"), verifParam("L")
	s := symBroker(K, L, true)
	d := s.symDefinition(L)
	err := s.b.RegisterPipeline(d.def, d.opts...)
	s.checkInv("C06.registerpipeline")
	for k := 0; k < s.K; k++ {
		verifAssert(s.node[k].closeCalls == 0, "C06.registerpipeline.no-close")
	}
	if err == nil {
		verifReach("C06.registerpipeline.ok")
	}
}

func H_C06_RemovePipeline() {
	K, L := verifParam("K"), verifParam("L")
	s := symBroker(K, L, true)
	t := s.t
	if nondetBool() {
		t = EventType(nondetString())
	}
	id := s.p.id
	if nondetBool() {
		id = PipelineID(nondetString())
	}
	err := s.b.RemovePipeline(t, id)
	s.checkInv("C06.removepipeline")
	for k := 0; k < s.K; k++ {
		verifAssert(s.node[k].closeCalls == 0, "C06.removepipeline.no-close")
		_, ok := s.b.nodes[s.ids[k]]
		verifAssert(ok == s.reg[k], "C06.removepipeline.nodes-stay")
	}
	if err == nil && t == s.t && id == s.p.id {
		verifAssert(s.lookupPipe(s.p.id) == nil, "C06.removepipeline.gone")
		verifReach("C06.removepipeline.target")
	}
	if t != s.t || id != s.o.id {
		s.pipeUnchanged(&s.o, "C06.removepipeline.other")
	}
}

func H_C06_RemovePipelineAndNodes() {
	K, L := verifParam("K"), verifParam("L")
	s := symBroker(K, L, true)
	symCloseErrs(s)
	// the caller's context may be done already: what was started is completed and reported all the same
	var rctx context.Context = context.Background()
	if nondetBool() {
		rctx = verifCancelledCtx(false)
	}
	ok, err := s.b.RemovePipelineAndNodes(rctx, s.t, s.p.id)
	want := verifAnd(verifAnd(s.t != "", s.p.id != ""), s.hasG && s.p.present)
	verifAssert(ok == want, "C06.rpan.true-iff-present")
	if !ok {
		return
	}
	verifAssert(s.lookupPipe(s.p.id) == nil, "C06.rpan.pipeline-gone")
	s.pipeUnchanged(&s.o, "C06.rpan.other-pipeline")
	anyCloseErr := false
	for k := 0; k < s.K; k++ {
		listed := pipeUses(&s.p, s.ids[k]) > 0
		others := pipeUses(&s.o, s.ids[k]) + s.extra[k]
		nu, still := s.b.nodes[s.ids[k]]
		if !s.reg[k] {
			verifAssert(!still, "C06.rpan.unregistered-stays-unregistered")
			verifAssert(s.node[k].closeCalls == 0, "C06.rpan.no-close-unregistered")
			continue
		}
		free := verifAnd(listed, others == 0)
		if still {
			verifAssert(!free, "C06.rpan.unreferenced-node-removed")
			verifAssert(s.node[k].closeCalls == 0, "C06.rpan.kept-node-not-closed")
			verifAssert(nu.referenceCount == others, "C06.rpan.count-decremented-once")
			verifAssert(verifSame(nu.node, Node(s.node[k])), "C06.rpan.kept-node-object")
		} else {
			verifAssert(free, "C06.rpan.only-unreferenced-removed")
			verifAssert(s.node[k].closeCalls == 1, "C06.rpan.closed-exactly-once")
			if s.node[k].closeErr != nil {
				anyCloseErr = true
				verifAssert(err != nil && errors.Is(err, s.node[k].closeErr), "C06.rpan.close-error-reported")
			}
		}
	}
	if !anyCloseErr {
		verifAssert(err == nil, "C06.rpan.no-spurious-error")
	}
	for i := 0; i < s.p.n; i++ {
		verifAssert(s.p.ln[i].node.(*vNode).closeCalls == 0, "C06.rpan.stale-objects-not-closed")
	}
	s.checkInv("C06.rpan")
	verifReach("C06.rpan.true")
}

func H_C06_RemoveNode() {
	K, L := verifParam("K"), verifParam("L")
	s := symBroker(K, L, true)
	symCloseErrs(s)
	id := NodeID(nondetString())
	err := s.b.RemoveNode(context.Background(), id)
	hit := false
	for k := 0; k < s.K; k++ {
		if !s.reg[k] {
			verifAssert(s.node[k].closeCalls == 0, "C06.removenode.no-close-unregistered")
			continue
		}
		_, still := s.b.nodes[s.ids[k]]
		isTarget := id == s.ids[k]
		inUse := s.rc0[k] > 0
		if still {
			// not removed: either not the target, or in use (then refused with an error and nothing changed)
			verifAssert(verifOr(!isTarget, inUse), "C06.removenode.unused-target-removed")
			s.nodeUnchanged(k, "C06.removenode.kept")
			verifAssert(verifImplies(isTarget, err != nil), "C06.removenode.refusal-is-error")
		} else {
			hit = true
			verifAssert(verifAnd(isTarget, !inUse), "C06.removenode.only-unused-target")
			verifAssert(s.node[k].closeCalls == 1, "C06.removenode.closed-once")
			if s.node[k].closeErr != nil {
				verifAssert(err != nil && errors.Is(err, s.node[k].closeErr), "C06.removenode.close-error-reported")
			} else {
				verifAssert(err == nil, "C06.removenode.ok")
			}
		}
	}
	if !hit {
		verifAssert(err != nil, "C06.removenode.miss-is-error")
	}
	s.pipeUnchanged(&s.p, "C06.removenode.pipes")
	s.pipeUnchanged(&s.o, "C06.removenode.pipes")
	s.checkInv("C06.removenode")
	verifReach("C06.removenode.end")
}

func H_C06_RegisterNode() {
	K, L := verifParam("K"), verifParam("L")
	s := symBroker(K, L, true)
	id := NodeID(nondetString())
	nn := newVNode()
	err := s.b.RegisterNode(id, nn)
	s.checkInv("C06.registernode")
	nu, ok := s.b.nodes[id]
	if err == nil {
		verifAssert(ok && verifSame(nu.node, Node(nn)), "C06.registernode.stored")
		if !s.listedAmongRegistered(id) {
			verifAssert(nu.referenceCount == 0, "C06.registernode.fresh-count-zero")
		}
	}
	for k := 0; k < s.K; k++ {
		verifAssert(s.node[k].closeCalls == 0, "C06.registernode.no-close")
	}
	verifAssert(nn.closeCalls == 0, "C06.registernode.no-close")
	s.pipeUnchanged(&s.p, "C06.registernode.pipes")
	s.pipeUnchanged(&s.o, "C06.registernode.pipes")
	verifReach("C06.registernode.end")
}

func H_C06_base() {
	b, err := NewBroker()
	verifAssert(err == nil && b != nil, "C06.base.newbroker")
	verifAssert(len(b.nodes) == 0 && len(b.graphs) == 0, "C06.base.empty")
	verifReach("C06.base")
}

// two-step histories from an arbitrary state: what clients observe (IsAnyPipelineRegistered) must keep agreeing with the
// registry — state that is cached redundantly would have to be kept consistent by every mutator
func H_C05_isany_after_history() {
	K, L := verifParam("K"), verifParam("L")
	s := symBroker(K, 2, false)
	_ = L
	def := Pipeline{PipelineID: s.p.id, EventType: s.t, NodeIDs: []NodeID{NodeID(nondetString()), NodeID(nondetString())}}
	s.b.RegisterPipeline(def)
	switch symLen(0, 3) {
	case 0:
		s.b.RemovePipeline(s.t, s.p.id)
	case 1:
		s.b.RemovePipelineAndNodes(context.Background(), s.t, s.p.id)
	case 2:
		s.b.RemovePipeline(s.t, s.o.id)
	case 3:
		s.b.RegisterPipeline(def)
		s.b.RemovePipeline(s.t, s.p.id)
	}
	any := s.b.IsAnyPipelineRegistered(s.t)
	verifAssert(any == (s.lookupPipe(s.p.id) != nil || s.lookupPipe(s.o.id) != nil), "C05.isany.agrees-after-history")
	verifReach("C05.isany.history")
}
