package __PKG__

import (
	"context"
	"sync"
)

// ---- two Broker calls as two goroutines; every context switch at a lock operation is a solver-visible choice ----

// cNode counts deliveries (harness-only state; each instance is driven by at most one Send here)
type cNode struct {
	typ     NodeType
	procs   int
	closes  int
	reopens int
}

func (n *cNode) Process(ctx context.Context, e *Event) (*Event, error) { n.procs++; return e, nil }
func (n *cNode) Reopen() error                                        { n.reopens++; return nil }
func (n *cNode) Type() NodeType                                       { return n.typ }
func (n *cNode) Close(ctx context.Context) error                      { n.closes++; return nil }

// brokerInvariant: exact in-use accounting and listed => registered, read off the real data structures
func brokerInvariant(b *Broker, tag string) {
	uses := map[NodeID]int{}
	for _, g := range b.graphs {
		g.roots.Range(func(_ PipelineID, rp *registeredPipeline) bool {
			seen := map[NodeID]bool{}
			for l := rp.rootNode; l != nil; {
				if !seen[l.nodeID] {
					seen[l.nodeID] = true
					uses[l.nodeID]++
				}
				_, ok := b.nodes[l.nodeID]
				verifAssert(ok, tag+".listed-node-is-registered")
				if len(l.next) == 0 {
					break
				}
				l = l.next[0]
			}
			return true
		})
	}
	for id, nu := range b.nodes {
		verifAssert(nu.referenceCount == uses[id], tag+".count-matches-listings")
	}
}

type iState struct {
	b            *Broker
	ctx          context.Context
	f, s, s2     *cNode
	okRP, okRN   bool
	errRP, errRN error
}

func interleaveBroker() *iState { return interleaveBrokerN(symLen(0, 3)) }

func interleaveBrokerN(pre int) *iState {
	r := &iState{ctx: &vCtx{}}
	b, _ := NewBroker()
	r.b = b
	r.f, r.s, r.s2 = &cNode{typ: NodeTypeFormatter}, &cNode{typ: NodeTypeSink}, &cNode{typ: NodeTypeSink}
	b.RegisterNode("f", r.f)
	b.RegisterNode("s", r.s)
	b.RegisterNode("s2", r.s2)
	if pre == 1 || pre == 3 {
		b.RegisterPipeline(Pipeline{PipelineID: "p", EventType: "t", NodeIDs: []NodeID{"f", "s"}})
	}
	if pre == 2 || pre == 3 {
		b.RegisterPipeline(Pipeline{PipelineID: "q", EventType: "t", NodeIDs: []NodeID{"f", "s2"}})
	}
	return r
}

const nMutators = 10

// observe: what a client can observe of the registry once it is quiescent
type iObs struct {
	p, q         bool
	f, s, s2     bool
	th, ths      int
	known        bool
	fc, sc, s2c  int
}

func (r *iState) observe() iObs {
	b := r.b
	o := iObs{}
	if g, ok := b.graphs["t"]; ok {
		g.roots.Range(func(id PipelineID, _ *registeredPipeline) bool {
			if id == "p" {
				o.p = true
			}
			if id == "q" {
				o.q = true
			}
			return true
		})
	}
	_, o.f = b.nodes["f"]
	_, o.s = b.nodes["s"]
	_, o.s2 = b.nodes["s2"]
	o.th, o.known = b.SuccessThreshold("t")
	o.ths, _ = b.SuccessThresholdSinks("t")
	o.fc, o.sc, o.s2c = r.f.closes, r.s.closes, r.s2.closes
	return o
}

func (r *iState) mutator(k int) {
	b := r.b
	switch k {
	case 8:
		b.SetSuccessThreshold("t", 2)
	case 9:
		b.SetSuccessThresholdSinks("t", 3)
	case 0:
		b.RegisterPipeline(Pipeline{PipelineID: "p", EventType: "t", NodeIDs: []NodeID{"f", "s"}})
	case 1:
		b.RemovePipeline("t", "p")
	case 2:
		b.RemovePipelineAndNodes(r.ctx, "t", "p")
	case 3:
		b.RemoveNode(r.ctx, "f")
	case 4:
		b.RemoveNode(r.ctx, "s")
	case 5:
		b.RegisterNode("f", r.f)
	case 6:
		b.RegisterPipeline(Pipeline{PipelineID: "q", EventType: "t", NodeIDs: []NodeID{"f", "s2"}})
	case 7:
		b.RemovePipelineAndNodes(r.ctx, "t", "q")
	}
}

// C04/C06: after any two mutators have run concurrently the registry satisfies the representation invariant,
// i.e. it is a state some sequential order of the two calls could have produced as far as accounting goes.
func H_C04_mutators_interleaved() {
	pre := nondetInt() // the same arbitrary pre-state is built three times (concurrent run and the two sequential orders)
	verifAssume(pre >= 0)
	verifAssume(pre <= 3)
	r := interleaveBrokerN(pre)
	a := symLen(0, nMutators-1)
	c := symLen(0, nMutators-1)
	verifNoteInt("opA", a)
	verifNoteInt("opB", c)
	brokerInvariant(r.b, "C04.interleaved.pre")
	verifInterleave(true)
	verifGo(func() { r.mutator(a) })
	verifGo(func() { r.mutator(c) })
	verifJoin()
	verifInterleave(false)
	brokerInvariant(r.b, "C04.interleaved")
	verifAssert(r.f.closes <= 1 && r.s.closes <= 1 && r.s2.closes <= 1, "C04.interleaved.closed-at-most-once")
	// once quiescent the broker behaves as if the two calls had run in some sequential order
	got := r.observe()
	r1 := interleaveBrokerN(pre)
	r1.mutator(a)
	r1.mutator(c)
	r2 := interleaveBrokerN(pre)
	r2.mutator(c)
	r2.mutator(a)
	verifAssert(got == r1.observe() || got == r2.observe(), "C04.interleaved.equivalent-to-a-sequential-order")
	verifReach("C04.interleaved.end")
}

// C04/C07: a Send racing with registration / removal / overwrite of pipeline p delivers to p zero or one time,
// and while p is being overwritten by a new version exactly one version sees the event.
// yNode: like cNode, with a lock operation inside Process, so that "a Send is inside this node" is a point at which the
// other goroutine may run
type yNode struct {
	typ   NodeType
	mu    sync.Mutex
	procs int
}

func (n *yNode) Process(ctx context.Context, e *Event) (*Event, error) {
	n.mu.Lock()
	n.procs++
	n.mu.Unlock()
	return e, nil
}
func (n *yNode) Reopen() error  { return nil }
func (n *yNode) Type() NodeType { return n.typ }

func H_C07_send_vs_overwrite() {
	r := &iState{ctx: &vCtx{}}
	b, _ := NewBroker()
	r.b = b
	// two complete versions of pipeline p: (f1, v1) and (f2, v2)
	f1, f2 := &yNode{typ: NodeTypeFormatter}, &yNode{typ: NodeTypeFormatter}
	v1, v2 := &yNode{typ: NodeTypeSink}, &yNode{typ: NodeTypeSink}
	b.RegisterNode("f", f1)
	b.RegisterNode("s", v1)
	b.RegisterPipeline(Pipeline{PipelineID: "p", EventType: "t", NodeIDs: []NodeID{"f", "s"}})
	// the overwriting call re-registers both ids with new node objects, then the pipeline
	b.RegisterNode("f", f2)
	b.RegisterNode("s", v2)
	var st Status
	var err error
	verifInterleave(true)
	verifGo(func() { st, err = b.Send(r.ctx, "t", "payload") })
	verifGo(func() { b.RegisterPipeline(Pipeline{PipelineID: "p", EventType: "t", NodeIDs: []NodeID{"f", "s"}}) })
	verifJoin()
	verifInterleave(false)
	verifAssert(err == nil, "C07.overwrite-vs-send.no-error")
	verifAssert(v1.procs+v2.procs == 1, "C07.overwrite-vs-send.exactly-one-version")
	// processed by one version as a whole: never the head of one and the tail of the other
	verifAssert(f1.procs == v1.procs && f2.procs == v2.procs, "C07.overwrite-vs-send.one-version-end-to-end")
	verifAssert(len(st.complete) == 1, "C07.overwrite-vs-send.one-completion")
	// once the overwriting call has returned only the new version is used
	b.Send(r.ctx, "t", "payload")
	verifAssert(v2.procs >= 1 && f2.procs >= 1, "C07.overwrite.new-version-after-return")
	verifAssert(v1.procs <= 1 && f1.procs <= 1, "C07.overwrite.old-version-not-used-after-return")
	verifReach("C07.overwrite-vs-send.end")
}

// C07 under concurrency: two registrations of the same id with arbitrary policies, from a state where the id is free,
// registered overwritable or registered DenyOverwrite. Once both have returned, their results and the registry are
// those of one of the two sequential orders; in particular a DenyOverwrite registration that reported success is
// never replaced and stays sticky.
type polRun struct {
	b        *Broker
	ctx      context.Context
	s0, sA, sB *cNode
	eA, eB   error
}

func polPolicy(k int) RegistrationPolicy {
	if k == 1 {
		return DenyOverwrite
	}
	return AllowOverwrite
}

func newPolRun(pre int, node bool) *polRun {
	r := &polRun{ctx: &vCtx{}}
	b, _ := NewBroker()
	r.b = b
	r.s0, r.sA, r.sB = &cNode{typ: NodeTypeSink}, &cNode{typ: NodeTypeSink}, &cNode{typ: NodeTypeSink}
	b.RegisterNode("f", &cNode{typ: NodeTypeFormatter})
	b.RegisterNode("s0", r.s0)
	b.RegisterNode("sA", r.sA)
	b.RegisterNode("sB", r.sB)
	if node {
		if pre > 0 {
			b.RegisterNode("n", r.s0, WithNodeRegistrationPolicy(polPolicy(pre-1)))
		}
		return r
	}
	if pre > 0 {
		b.RegisterPipeline(Pipeline{PipelineID: "p", EventType: "t", NodeIDs: []NodeID{"f", "s0"}}, WithPipelineRegistrationPolicy(polPolicy(pre-1)))
	}
	return r
}

func (r *polRun) reg(node bool, which int, pol int) error {
	if node {
		n := r.sA
		if which == 1 {
			n = r.sB
		}
		return r.b.RegisterNode("n", n, WithNodeRegistrationPolicy(polPolicy(pol)))
	}
	sink := NodeID("sA")
	if which == 1 {
		sink = "sB"
	}
	return r.b.RegisterPipeline(Pipeline{PipelineID: "p", EventType: "t", NodeIDs: []NodeID{"f", sink}}, WithPipelineRegistrationPolicy(polPolicy(pol)))
}

// live: which version is the registered one (0 none, 1 pre-state, 2 A, 3 B) and whether the id still accepts a registration
func (r *polRun) live(node bool) (int, bool) {
	who := 0
	if node {
		if nu, ok := r.b.nodes["n"]; ok {
			switch nu.node {
			case Node(r.s0):
				who = 1
			case Node(r.sA):
				who = 2
			case Node(r.sB):
				who = 3
			}
		}
		return who, r.b.RegisterNode("n", r.s0) == nil
	}
	r.b.Send(r.ctx, "t", "payload")
	if r.s0.procs > 0 {
		who = 1
	}
	if r.sA.procs > 0 {
		who = 2
	}
	if r.sB.procs > 0 {
		who = 3
	}
	verifAssert(r.s0.procs+r.sA.procs+r.sB.procs <= 1, "C07.policies.one-version-live")
	return who, r.b.RegisterPipeline(Pipeline{PipelineID: "p", EventType: "t", NodeIDs: []NodeID{"f", "s0"}}) == nil
}

func H_C07_policies_interleaved() {
	node := nondetBool()
	pre := symLen(0, 2)
	pa, pb := symLen(0, 1), symLen(0, 1)
	verifNoteInt("pre", pre)
	verifNoteInt("polA", pa)
	verifNoteInt("polB", pb)
	r := newPolRun(pre, node)
	verifInterleave(true)
	verifGo(func() { r.eA = r.reg(node, 0, pa) })
	verifGo(func() { r.eB = r.reg(node, 1, pb) })
	verifJoin()
	verifInterleave(false)
	who, open := r.live(node)
	// the direct statement of the property
	if pre == 2 {
		verifAssert(r.eA != nil && r.eB != nil, "C07.policies.deny-is-sticky")
		verifAssert(who == 1, "C07.policies.original-keeps-working")
	}
	if pa == 1 && r.eA == nil && pb == 1 && r.eB == nil {
		verifAssert(false, "C07.policies.two-deny-registrations-both-succeeded")
	}
	if (pa == 1 && r.eA == nil) || (pb == 1 && r.eB == nil) || pre == 2 {
		verifAssert(!open, "C07.policies.deny-registration-still-protected")
	}
	// and the linearizability form: some sequential order explains everything observed
	r1 := newPolRun(pre, node)
	e1a := r1.reg(node, 0, pa)
	e1b := r1.reg(node, 1, pb)
	w1, o1 := r1.live(node)
	r2 := newPolRun(pre, node)
	e2b := r2.reg(node, 1, pb)
	e2a := r2.reg(node, 0, pa)
	w2, o2 := r2.live(node)
	ab := (r.eA == nil) == (e1a == nil) && (r.eB == nil) == (e1b == nil) && who == w1 && open == o1
	ba := (r.eA == nil) == (e2a == nil) && (r.eB == nil) == (e2b == nil) && who == w2 && open == o2
	verifAssert(ab || ba, "C07.policies.equivalent-to-a-sequential-order")
	verifReach("C07.policies.end")
}

func H_C04_send_vs_registration() {
	r := &iState{ctx: &vCtx{}}
	b, _ := NewBroker()
	r.b = b
	f, s := &cNode{typ: NodeTypeFormatter}, &cNode{typ: NodeTypeSink}
	b.RegisterNode("f", f)
	b.RegisterNode("s", s)
	b.SetSuccessThreshold("t", 0)
	pre := nondetBool()
	if pre {
		b.RegisterPipeline(Pipeline{PipelineID: "p", EventType: "t", NodeIDs: []NodeID{"f", "s"}})
	}
	k := symLen(0, 2)
	verifInterleave(true)
	verifGo(func() { b.Send(r.ctx, "t", "payload") })
	verifGo(func() {
		switch k {
		case 0:
			b.RegisterPipeline(Pipeline{PipelineID: "p", EventType: "t", NodeIDs: []NodeID{"f", "s"}})
		case 1:
			b.RemovePipeline("t", "p")
		case 2:
			b.RemovePipelineAndNodes(r.ctx, "t", "p")
		}
	})
	verifJoin()
	verifInterleave(false)
	verifAssert(s.procs <= 1, "C04.send-vs-registration.at-most-once")
	// once both calls have returned, a new Send sees exactly what the registry says (nothing stale survives the race)
	before := s.procs
	b.Send(r.ctx, "t", "payload")
	registered := k == 0 // the other call registers p (k == 0) or removes it
	verifAssert(s.procs-before == b2i(registered), "C04.send-vs-registration.later-send-sees-the-final-registry")
	s.procs = before
	if !pre && k != 0 {
		verifAssert(s.procs == 0, "C04.send-vs-registration.never-registered-never-delivered")
	}
	if pre && k == 0 {
		verifAssert(s.procs == 1, "C04.send-vs-registration.registered-throughout-delivered-once")
	}
	verifReach("C04.send-vs-registration.end")
}

// C12 with a concurrent writer: a Send whose node re-enters Send, racing with a threshold update, must not deadlock
func H_C12_reentry_vs_writer() {
	b, _ := NewBroker()
	ctx := &vCtx{}
	f := &eNode{typ: NodeTypeFormatter, b: b, where: 1, ctx: ctx}
	b.RegisterNode("f", f)
	b.RegisterNode("s", &rNode{typ: NodeTypeSink})
	b.RegisterNode("of", &rNode{typ: NodeTypeFormatter})
	b.RegisterPipeline(Pipeline{PipelineID: "p", EventType: "t", NodeIDs: []NodeID{"f", "s"}})
	b.RegisterPipeline(Pipeline{PipelineID: "o", EventType: "other", NodeIDs: []NodeID{"of", "s"}})
	k := symLen(0, 7)
	verifNoteInt("writer", k)
	verifInterleave(true)
	verifGo(func() { b.Send(ctx, "t", "payload") })
	verifGo(func() {
		switch k {
		case 0:
			b.SetSuccessThreshold("t", 1)
		case 1:
			b.SetSuccessThresholdSinks("t", 1)
		case 2:
			b.RegisterNode("x", &rNode{typ: NodeTypeSink})
		case 3:
			// the pipeline the event is travelling through is removed meanwhile
			b.RemovePipelineAndNodes(ctx, "t", "p")
		case 4:
			b.RemovePipeline("t", "p")
		case 5:
			b.RegisterPipeline(Pipeline{PipelineID: "p", EventType: "t", NodeIDs: []NodeID{"f", "s"}})
		case 6:
			b.RemovePipelineAndNodes(ctx, "other", "o")
		case 7:
			b.Reopen(ctx)
		}
	})
	verifJoin()
	verifInterleave(false)
	b.SetSuccessThreshold("t", 0)
	verifReach("C12.reentry-vs-writer.end")
}

// C14: Event.FormattedAs / Format as a last-writer-wins table under concurrency: two writers of different formats on an
// event whose table may not exist yet (events not made by a Broker) both leave their entry; a reader sees nothing or the
// value, never a lost table
func H_C14_formatted_interleaved() {
	e := &Event{Type: "t"}
	if nondetBool() {
		e.Formatted = map[string][]byte{}
	}
	same := nondetBool()
	ka, kb := "a", "b"
	if same {
		kb = "a"
	}
	verifInterleave(true)
	verifGo(func() { e.FormattedAs(ka, []byte("va")) })
	verifGo(func() { e.FormattedAs(kb, []byte("vb")) })
	verifGo(func() { e.Format("a") })
	verifJoin()
	verifInterleave(false)
	va, oka := e.Format("a")
	vb, okb := e.Format(kb)
	if same {
		verifAssert(oka && (string(va) == "va" || string(va) == "vb"), "C14.interleaved.last-writer-wins")
	} else {
		verifAssert(oka && string(va) == "va", "C14.interleaved.first-writers-entry-kept")
		verifAssert(okb && string(vb) == "vb", "C14.interleaved.second-writers-entry-kept")
	}
	verifReach("C14.interleaved.end")
}

// zNode: a closer whose Close contains a lock operation (a point at which another goroutine may run) and may fail
type zNode struct {
	typ    NodeType
	mu     sync.Mutex
	closes int
	err    error
}

func (n *zNode) Process(ctx context.Context, e *Event) (*Event, error) { return e, nil }
func (n *zNode) Reopen() error                                        { return nil }
func (n *zNode) Type() NodeType                                       { return n.typ }
func (n *zNode) Close(ctx context.Context) error {
	n.mu.Lock()
	n.closes++
	n.mu.Unlock()
	return n.err
}

// C04: a removal whose Close is slow (and may fail) racing with a registration of the same id, or with the registration of
// a pipeline that lists it: once both have returned, the registry is what one of the two sequential orders leaves
func H_C04_remove_vs_register() {
	b, _ := NewBroker()
	ctx := &vCtx{}
	n1, n2 := &zNode{typ: NodeTypeSink}, &zNode{typ: NodeTypeSink}
	if nondetBool() {
		n1.err = &vErr{"close"}
	}
	b.RegisterNode("x", n1)
	b.RegisterNode("f", &rNode{typ: NodeTypeFormatter})
	k := symLen(0, 1)
	var eRem, eOther error
	verifInterleave(true)
	verifGo(func() { eRem = b.RemoveNode(ctx, "x") })
	verifGo(func() {
		if k == 0 {
			eOther = b.RegisterNode("x", n2)
		} else {
			eOther = b.RegisterPipeline(Pipeline{PipelineID: "p", EventType: "t", NodeIDs: []NodeID{"f", "x"}})
		}
	})
	verifJoin()
	verifInterleave(false)
	nu, reg := b.nodes["x"]
	verifAssert(n1.closes <= 1 && n2.closes <= 1, "C04.remove-vs-register.closed-at-most-once")
	if k == 0 {
		// remove;register leaves n2 registered, register;remove leaves nothing (the removal then takes n2)
		verifAssert(eOther == nil, "C04.remove-vs-register.registration-accepted")
		if reg {
			verifAssert(nu.node == Node(n2) && n2.closes == 0, "C04.remove-vs-register.registered-node-is-the-new-one")
		} else {
			verifAssert(n2.closes == 1 && n1.closes == 0, "C04.remove-vs-register.removal-took-the-new-node")
		}
	} else {
		// remove;register-pipeline: the pipeline is refused (node gone); register-pipeline;remove: the removal is refused
		if eOther == nil {
			verifAssert(reg && eRem != nil && n1.closes == 0, "C04.remove-vs-register.listed-node-stays-registered-and-open")
		} else {
			verifAssert(!reg && n1.closes == 1, "C04.remove-vs-register.removed-node-is-gone")
		}
	}
	brokerInvariant(b, "C04.remove-vs-register")
	verifReach("C04.remove-vs-register.end")
}
