package __PKG__

import (
	"context"
)

// ---- stub node -----------------------------------------------------------------------------

type vNode struct {
	typ         NodeType
	closeErr    error
	closeCalls  int
	reopenErr   error
	reopenCalls int
	procCalls   int
}

func (n *vNode) Process(ctx context.Context, e *Event) (*Event, error) { n.procCalls++; return e, nil }
func (n *vNode) Reopen() error                                        { n.reopenCalls++; return n.reopenErr }
func (n *vNode) Type() NodeType                                       { return n.typ }
func (n *vNode) Close(ctx context.Context) error                      { n.closeCalls++; return n.closeErr }

type vErr struct{ tag string }

func (e *vErr) Error() string { return e.tag }

func newVNode() *vNode {
	n := &vNode{typ: NodeType(nondetInt())}
	verifAssume(n.typ >= 0)
	verifAssume(n.typ <= 5)
	return n
}

// ---- arbitrary broker state under the representation invariant ------------------------------
//
// Explicit part: K node ids (distinct, non-empty, symbolic strings), each registered or not; one event
// type t whose graph is present or not; in that graph the pipeline `pid` (present or not) and one other
// pipeline `oid` (present or not). Everything else (pipelines of other event types) is abstracted by the
// ghost integers extra[k] >= 0: the number of listings of node k by pipelines that the call under test
// cannot touch. Inv clause 4 (exact accounting): referenceCount[k] == explicit listings of k + extra[k].

const vMaxK = 4

type vPipe struct {
	present bool
	id      PipelineID
	pol     RegistrationPolicy
	n       int
	ln      [5]*linkedNode // the linked list nodes, in order
	reg     *registeredPipeline
}

type vState struct {
	b     *Broker
	K     int
	ids   [vMaxK]NodeID
	reg   [vMaxK]bool
	node  [vMaxK]*vNode
	rc0   [vMaxK]int
	pol0  [vMaxK]RegistrationPolicy
	nu0   [vMaxK]*nodeUsage
	extra [vMaxK]int
	t     EventType
	hasG  bool
	g     *graph
	p     vPipe
	o     vPipe
	th0   int
	ths0  int
	exact bool
}

func symPolicy() RegistrationPolicy {
	if nondetBool() {
		return DenyOverwrite
	}
	return AllowOverwrite
}

// listedAmongRegistered: id equals one of the registered node ids
func (s *vState) listedAmongRegistered(id NodeID) bool {
	c := false
	for k := 0; k < s.K; k++ {
		if s.reg[k] {
			c = verifOr(c, id == s.ids[k])
		}
	}
	return c
}

func (s *vState) mkPipe(p *vPipe, maxLen int) {
	p.present = true
	p.pol = symPolicy()
	n := nondetInt()
	verifAssume(n >= 2)
	verifAssume(n <= maxLen)
	// concretise the length (bounded case split)
	ln := 2
	for ln < n {
		ln++
	}
	p.n = ln
	var prev *linkedNode
	for i := 0; i < ln; i++ {
		nd := newVNode()
		l := &linkedNode{node: nd, nodeID: NodeID(nondetString())}
		// Inv clause 3: every listed id is registered
		verifAssume(s.listedAmongRegistered(l.nodeID))
		// Inv clause 2: shape accepted by doValidate
		if i == ln-1 {
			verifAssume(nd.typ == NodeTypeSink)
		} else {
			if i == ln-2 {
				verifAssume(verifOr(nd.typ == NodeTypeFormatter, nd.typ == NodeTypeFormatterFilter))
			}
		}
		// within one registration equal ids were resolved to the same node object, hence the same type
		for j := 0; j < i; j++ {
			verifAssume(verifImplies(p.ln[j].nodeID == l.nodeID, p.ln[j].node.(*vNode).typ == nd.typ))
		}
		if prev != nil {
			prev.next = []*linkedNode{l}
		}
		p.ln[i] = l
		prev = l
	}
	p.reg = &registeredPipeline{rootNode: p.ln[0], registrationPolicy: p.pol}
	s.g.roots.Store(p.id, p.reg)
}

// symBroker builds the arbitrary pre-state. exact: assume exact accounting (else only count >= uses).
func symBroker(K, maxLen int, exact bool) *vState {
	s := &vState{K: K, exact: exact}
	b, _ := NewBroker()
	s.b = b
	for k := 0; k < K; k++ {
		s.ids[k] = NodeID(nondetString())
		verifAssume(s.ids[k] != "")
		for j := 0; j < k; j++ {
			verifAssume(s.ids[k] != s.ids[j])
		}
		s.node[k] = newVNode()
		if nondetBool() {
			s.reg[k] = true
			s.rc0[k] = nondetInt()
			s.pol0[k] = symPolicy()
			s.nu0[k] = &nodeUsage{node: s.node[k], referenceCount: s.rc0[k], registrationPolicy: s.pol0[k]}
			b.nodes[s.ids[k]] = s.nu0[k]
		}
	}
	s.t = EventType(nondetString())
	s.p.id = PipelineID(nondetString())
	s.o.id = PipelineID(nondetString())
	verifAssume(s.o.id != s.p.id)
	verifAssume(s.o.id != "")
	if nondetBool() {
		s.hasG = true
		s.th0, s.ths0 = nondetInt(), nondetInt()
		verifAssume(s.th0 >= 0)
		verifAssume(s.ths0 >= 0)
		s.g = &graph{successThreshold: s.th0, successThresholdSinks: s.ths0}
		b.graphs[s.t] = s.g
		hasP, hasO := nondetBool(), nondetBool()
		// the order in which sync.Map.Range visits the two pipelines is arbitrary: either may come first
		if hasO && hasP && nondetBool() {
			s.mkPipe(&s.o, 2)
			hasO = false
		}
		if hasP {
			s.mkPipe(&s.p, maxLen)
		}
		if hasO {
			s.mkPipe(&s.o, 2)
		}
	}
	for k := 0; k < K; k++ {
		if s.reg[k] {
			s.extra[k] = nondetInt()
			verifAssume(s.extra[k] >= 0)
			verifAssume(s.extra[k] < 1000000)
			if exact {
				verifAssume(s.rc0[k] == s.uses0(k)+s.extra[k])
			} else {
				verifAssume(s.rc0[k] >= s.uses0(k)+s.extra[k])
				verifAssume(s.rc0[k] < 2000000)
			}
		}
	}
	return s
}

// pipeUses: 1 if the pipeline lists id at least once, else 0 (a pipeline holds one reference per distinct node)
func pipeUses(p *vPipe, id NodeID) int {
	c := false
	if p.present {
		for i := 0; i < p.n; i++ {
			c = verifOr(c, p.ln[i].nodeID == id)
		}
	}
	return verifIteInt(c, 1, 0)
}

// uses0: explicit listings of node k in the pre-state
func (s *vState) uses0(k int) int { return pipeUses(&s.p, s.ids[k]) + pipeUses(&s.o, s.ids[k]) }

// ---- reading the post-state back from the real data structures -------------------------------

// listUses: 1 if the linked list starting at root lists id at least once (linear lists only).
func listUses(root *linkedNode, id NodeID) int {
	c := false
	for l := root; l != nil; {
		c = verifOr(c, l.nodeID == id)
		if len(l.next) == 0 {
			break
		}
		l = l.next[0]
	}
	return verifIteInt(c, 1, 0)
}

// usesNow: listings of id over all pipelines currently registered for type t (read from the real graph)
func (s *vState) usesNow(id NodeID) int {
	u := 0
	g, ok := s.b.graphs[s.t]
	if !ok {
		return 0
	}
	g.roots.Range(func(_ PipelineID, rp *registeredPipeline) bool {
		u += listUses(rp.rootNode, id)
		return true
	})
	return u
}

// lookupPipe reads the registration stored under id for type t (nil if none)
func (s *vState) lookupPipe(id PipelineID) *registeredPipeline {
	g, ok := s.b.graphs[s.t]
	if !ok {
		return nil
	}
	var out *registeredPipeline
	g.roots.Range(func(k PipelineID, rp *registeredPipeline) bool {
		if k == id {
			out = rp
			return false
		}
		return true
	})
	return out
}

// checkInv asserts the representation invariant on the current (post) state for the explicit nodes.
func (s *vState) checkInv(tag string) {
	for k := 0; k < s.K; k++ {
		nu, ok := s.b.nodes[s.ids[k]]
		u := s.usesNow(s.ids[k])
		if ok {
			if s.exact {
				verifAssert(nu.referenceCount == u+s.extra[k], tag+".inv.count-exact")
			} else {
				verifAssert(nu.referenceCount >= u+s.extra[k], tag+".inv.count-ge")
			}
			verifAssert(verifOr(nu.registrationPolicy == AllowOverwrite, nu.registrationPolicy == DenyOverwrite), tag+".inv.policy")
		} else {
			// clause 3: an unregistered node is not listed
			verifAssert(u == 0, tag+".inv.listed-implies-registered")
		}
	}
}

// frame facts ------------------------------------------------------------------------------------

// nodeUnchanged: node k's registration is exactly what it was
func (s *vState) nodeUnchanged(k int, tag string) {
	nu, ok := s.b.nodes[s.ids[k]]
	verifAssert(ok == s.reg[k], tag+".frame.node-presence")
	if ok && s.reg[k] {
		verifAssert(nu == s.nu0[k], tag+".frame.node-entry")
		verifAssert(verifSame(nu.node, Node(s.node[k])), tag+".frame.node-object")
		verifAssert(nu.referenceCount == s.rc0[k], tag+".frame.node-count")
		verifAssert(nu.registrationPolicy == s.pol0[k], tag+".frame.node-policy")
	}
	verifAssert(s.node[k].closeCalls == 0, tag+".frame.node-not-closed")
}

func (s *vState) pipeUnchanged(p *vPipe, tag string) {
	rp := s.lookupPipe(p.id)
	if !p.present {
		verifAssert(rp == nil, tag+".frame.pipe-absent")
		return
	}
	verifAssert(rp == p.reg, tag+".frame.pipe-entry")
	if rp == p.reg {
		verifAssert(rp.registrationPolicy == p.pol, tag+".frame.pipe-policy")
		verifAssert(rp.rootNode == p.ln[0], tag+".frame.pipe-root")
		for i := 0; i < p.n; i++ {
			verifAssert(verifSame(p.ln[i].node, Node(p.ln[i].node.(*vNode))), tag+".frame.pipe-node")
			if i+1 < p.n {
				verifAssert(len(p.ln[i].next) == 1 && p.ln[i].next[0] == p.ln[i+1], tag+".frame.pipe-link")
			} else {
				verifAssert(len(p.ln[i].next) == 0, tag+".frame.pipe-last")
			}
			verifAssert(p.ln[i].node.(*vNode).closeCalls == 0, tag+".frame.pipe-node-not-closed")
		}
	}
}

// allUnchanged: the triple (pipelines receiving events, registered nodes, in-use status) is what it was.
func (s *vState) allUnchanged(tag string) {
	for k := 0; k < s.K; k++ {
		s.nodeUnchanged(k, tag)
	}
	s.pipeUnchanged(&s.p, tag)
	s.pipeUnchanged(&s.o, tag)
	if s.hasG {
		g, ok := s.b.graphs[s.t]
		verifAssert(ok && g == s.g, tag+".frame.graph")
		verifAssert(s.g.successThreshold == s.th0 && s.g.successThresholdSinks == s.ths0, tag+".frame.thresholds")
	}
}
