package __PKG__

import (
	"context"
	"errors"
)

// ---- C02: thresholds and getError ----

func H_C02_threshold_set() {
	b, _ := NewBroker()
	// arbitrary prior thresholds for two types
	t := EventType(nondetString())
	u := EventType(nondetString())
	verifAssume(u != t)
	verifAssume(u != "")
	if nondetBool() {
		b.graphs[t] = &graph{successThreshold: nondetInt(), successThresholdSinks: nondetInt()}
	}
	if nondetBool() {
		b.graphs[u] = &graph{successThreshold: nondetInt(), successThresholdSinks: nondetInt()}
	}
	n := nondetInt()
	before, had := b.SuccessThreshold(u)
	beforeS, hadS := b.SuccessThresholdSinks(u)
	beforeTS, _ := b.SuccessThresholdSinks(t)
	sinks := nondetBool()
	var err error
	if sinks {
		err = b.SetSuccessThresholdSinks(t, n)
	} else {
		err = b.SetSuccessThreshold(t, n)
	}
	verifAssert((err != nil) == verifOr(t == "", n < 0), "C02.set.err-iff-invalid")
	if err == nil {
		if sinks {
			got, ok := b.SuccessThresholdSinks(t)
			verifAssert(ok, "C02.set.readback-ok")
			verifAssert(got == n, "C02.set.readback")
		} else {
			got, ok := b.SuccessThreshold(t)
			verifAssert(ok, "C02.set.readback-ok")
			verifAssert(got == n, "C02.set.readback")
			gotS, _ := b.SuccessThresholdSinks(t)
			verifAssert(gotS == beforeTS, "C02.set.other-threshold-untouched")
		}
	}
	after, has := b.SuccessThreshold(u)
	afterS, hasS := b.SuccessThresholdSinks(u)
	verifAssert(after == before, "C02.set.isolation")
	verifAssert(has == had, "C02.set.isolation-ok")
	verifAssert(afterS == beforeS, "C02.set.isolation-sinks")
	verifAssert(hasS == hadS, "C02.set.isolation-sinks-ok")
	verifReach("C02.threshold.end")
}

func mkIDs(n int) []NodeID {
	var out []NodeID
	for i := 0; i < n; i++ {
		out = append(out, NodeID(nondetString()))
	}
	return out
}

func H_C02_getError() {
	nc := nondetInt()
	verifAssume(nc >= 0)
	verifAssume(nc <= 4)
	ns := nondetInt()
	verifAssume(ns >= 0)
	verifAssume(ns <= nc)
	s := Status{complete: mkIDs(nc), completeSinks: mkIDs(ns)}
	th, thS := nondetInt(), nondetInt()
	var ctxErr error
	if nondetBool() {
		ctxErr = context.Canceled
	}
	err := s.getError(ctxErr, th, thS)
	verifAssert((err != nil) == verifOr(nc < th, ns < thS), "C02.getError.iff")
	if err != nil && ctxErr != nil {
		verifAssert(errors.Is(err, ctxErr), "C02.getError.wraps-ctx")
	}
	verifReach("C02.getError.end")
}

// the error of a Send whose context is done wraps the context's error (ctx.Err(), whatever cause the canceller recorded)
func H_C02_process_cancelled() {
	g := &graph{successThreshold: nondetInt(), successThresholdSinks: nondetInt()}
	f := &pNode{typ: NodeTypeFilter, outcome: symLen(0, 3)}
	s := &pNode{pipe: 0, pos: 1, typ: NodeTypeSink, outcome: symLen(0, 3)}
	root := &linkedNode{node: f, nodeID: "f", next: []*linkedNode{{node: s, nodeID: "s"}}}
	g.roots.Store("p", &registeredPipeline{rootNode: root})
	ctx := verifCancelledCtx(nondetBool())
	// whether the range goroutine finishes (and closes the status channel) before the collector first looks is up to the
	// scheduler: both orders are explored
	verifGoOrder(true)
	st, err := g.process(ctx, &Event{Type: "t", Formatted: map[string][]byte{}})
	verifGoOrder(false)
	verifAssert((err != nil) == verifOr(len(st.complete) < g.successThreshold, len(st.completeSinks) < g.successThresholdSinks), "C02.cancelled.error-iff-thresholds-unmet")
	if err != nil {
		verifAssert(errors.Is(err, ctx.Err()), "C02.cancelled.error-wraps-ctx-err")
		verifReach("C02.cancelled.error")
	}
	verifAssert(len(st.complete)+len(st.Warnings) <= 1, "C02.cancelled.never-invented")
	verifReach("C02.cancelled.end")
}
