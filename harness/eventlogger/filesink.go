package __PKG__

import (
	"context"
	"fmt"
	"os"
	"path/filepath"
	"sort"
	"strconv"
	"time"
)

// ---- FileSink over the ghost file system (C08, C15, C13) ---------------------------------------------------

var (
	fsDir    = "/logs"
	fsActive = "/logs/audit.log"
)

// fsInit: symbolically the directory is the literal /logs; natively a fresh temporary directory
func fsInit() {
	fsDir = verifTempDir()
	fsActive = fsDir + "/audit.log"
}

func stamped(t int) string {
	return fmt.Sprintf(fsDir+"/audit-%s.log", strconv.FormatInt(int64(t), 10))
}

type fsState struct {
	s        *FileSink
	nRot     int
	rotT     [4]int
	rotC     [4]string
	foreignA bool // /logs/other.txt
	foreignB bool // /logs/audit-zzz.log (matches the sink's glob)
	open     bool
	actName  string
	actC     string // content of the active file before the operation
	bw0      int64
	lc0      time.Time
	tStart   time.Time
}

// symSink: an arbitrary sink state under the sink's invariant: rotated files with strictly increasing timestamps,
// an active file that is newer than all of them (open or not), symbolic counters and configuration.
func symSink(R int) *fsState {
	fsInit()
	st := &fsState{}
	s := &FileSink{Path: fsDir, FileName: "audit.log"}
	st.s = s
	s.MaxBytes = nondetInt()
	s.MaxFiles = nondetInt()
	verifAssume(s.MaxFiles >= 0)
	// any value: a negative duration (like zero) never triggers a time rotation
	s.MaxDuration = time.Duration(nondetInt())
	s.TimestampOnlyOnRotate = nondetBool()
	s.Mode = os.FileMode(nondetInt())
	verifAssume(s.Mode >= 0)
	verifAssume(s.Mode <= 0777)
	if nondetBool() {
		s.Format = "custom"
	}
	prev := 0
	st.nRot = symLen(0, R)
	for i := 0; i < st.nRot; i++ {
		st.rotT[i] = nondetInt()
		verifAssume(st.rotT[i] > prev)
		prev = st.rotT[i]
		st.rotC[i] = nondetString()
		os.WriteFile(stamped(st.rotT[i]), []byte(st.rotC[i]), 0600)
	}
	// each of them last touched whenever (restored from a backup, say): age is in the name, not in the inode
	var rotNames []string
	for i := 0; i < st.nRot; i++ {
		rotNames = append(rotNames, stamped(st.rotT[i]))
	}
	verifAgeFiles(rotNames)
	if nondetBool() {
		st.foreignA = true
		os.WriteFile(fsDir+"/other.txt", []byte("foreign-a"), 0644)
	}
	if nondetBool() {
		st.foreignB = true
		os.WriteFile(fsDir+"/audit-zzz.log", []byte("foreign-b"), 0644)
	}
	// the active file
	st.actName = fsActive
	actT := 0
	if !s.TimestampOnlyOnRotate && s.rotateEnabled() {
		actT = nondetInt()
		verifAssume(actT > prev)
		prev = actT
		st.actName = stamped(actT)
	}
	hasActive := nondetBool()
	if hasActive {
		st.actC = nondetString()
		os.WriteFile(st.actName, []byte(st.actC), 0600)
		// however long ago that was
		verifAgeFile(st.actName)
	}
	// the clock is past every timestamp on disk
	now := time.Now()
	verifAssume(now.UnixNano() > int64(prev))
	if hasActive && nondetBool() {
		// the sink holds the active file open, with arbitrary counters
		f, _ := os.OpenFile(st.actName, os.O_APPEND|os.O_WRONLY|os.O_CREATE, 0600)
		s.f = f
		st.open = true
		s.BytesWritten = int64(nondetInt())
		verifAssume(s.BytesWritten >= 0)
		s.LastCreated = time.Unix(0, int64(nondetInt()))
		verifAssume(!s.LastCreated.After(now))
		if actT != 0 {
			verifAssume(s.LastCreated.UnixNano() == int64(actT))
		}
	}
	st.bw0, st.lc0 = s.BytesWritten, s.LastCreated
	st.tStart = time.Now()
	return st
}

func readFile(name string) (string, bool) {
	b, err := os.ReadFile(name)
	return string(b), err == nil
}

// rotatedKept: every rotated file that still exists has its old content; removed ones are the oldest
func (st *fsState) checkRotated(tag string, pruneAllowed bool, maxKeep int) {
	// the removed files are the oldest ones: once a rotated file is still there, no younger one may be missing
	kept := false
	for i := 0; i < st.nRot; i++ {
		c, ok := readFile(stamped(st.rotT[i]))
		if ok {
			verifAssert(c == st.rotC[i], tag+".rotated-file-content-kept")
			kept = true
		} else {
			verifAssert(pruneAllowed, tag+".no-removal-without-retention-limit")
			verifAssert(!kept, tag+".only-oldest-removed")
		}
	}
	if st.foreignA {
		c, ok := readFile(fsDir+"/other.txt")
		verifAssert(ok && c == "foreign-a", tag+".foreign-file-untouched")
	}
	if st.foreignB {
		c, ok := readFile(fsDir+"/audit-zzz.log")
		verifAssert(ok && c == "foreign-b", tag+".foreign-matching-file-untouched")
	}
}

func H_C08_Process() {
	R := verifParam("R")
	st := symSink(R)
	s := st.s
	if verifParam("FAULTS") == 1 {
		verifFSFaults(true)
		s.f = verifPlantPersistentWriteFault(st.actName, s.f)
	}
	data := nondetText()
	e := &Event{Type: "t", Formatted: map[string][]byte{}}
	have := nondetBool()
	key := "json"
	if s.Format != "" {
		key = s.Format
	}
	if have {
		e.Formatted[key] = []byte(data)
	} else {
		e.Formatted["unrelated"] = []byte(data)
		if s.Format != "" {
			// bytes for another format — the JSON one included — are no substitute for the configured format
			e.Formatted[JSONFormat] = []byte(data)
		}
	}
	out, err := s.Process(context.Background(), e)
	tEnd := time.Now()
	verifAssert(out == nil, "C13.file.sink-forwards-nothing")
	if !have {
		verifAssert(err != nil, "C13.file.missing-format-is-error")
		verifAssert(s.BytesWritten == st.bw0, "C13.file.missing-format-writes-nothing")
		st.checkRotated("C08.process.noformat", false, 0)
		verifReach("C13.file.noformat")
		return
	}
	if verifParam("FAULTS") == 1 {
		// with write faults: success only if the bytes are the tail of the file the sink now holds
		if err == nil && s.f != nil {
			c := verifFDContent(s.f)
			verifAssert(c == data || c == st.actC+data, "C13.file.success-only-after-writing-the-bytes")
			verifReach("C13.file.faults.ok")
		}
		return
	}
	verifAssert(err == nil, "C08.process.acknowledged")
	if err != nil {
		return
	}
	byBytes := s.MaxBytes > 0 && st.bw0 >= int64(s.MaxBytes)
	// time condition: certain outcomes only
	mustByTime := s.MaxDuration > 0 && st.tStart.Sub(st.lc0) > s.MaxDuration
	cannotByTime := !(s.MaxDuration > 0 && tEnd.Sub(st.lc0) > s.MaxDuration)
	rotated := !s.LastCreated.Equal(st.lc0) || !st.open
	if st.open {
		if byBytes || mustByTime {
			verifAssert(!s.LastCreated.Equal(st.lc0), "C15.rotates-when-limit-reached")
		}
		if !byBytes && cannotByTime {
			verifAssert(s.LastCreated.Equal(st.lc0), "C15.never-rotates-below-limits")
		}
	}
	verifAssert(s.f != nil, "C08.process.file-open-after-write")
	if s.f == nil {
		return
	}
	cur := verifFDContent(s.f)
	if st.open && s.LastCreated.Equal(st.lc0) {
		// no rotation: appended to the same file, exactly once, contiguous
		verifAssert(cur == st.actC+data, "C08.process.appended-exactly-once")
		verifAssert(s.BytesWritten == st.bw0+int64(len(data)), "C15.bytes-written-accounting")
		verifAssert(verifFDIsName(s.f, st.actName), "C08.process.still-the-active-file")
		st.checkRotated("C08.process.norotate", false, 0)
		verifReach("C08.process.norotate")
		return
	}
	_ = rotated
	// a new active file was opened: it holds exactly the event (or previous content + event if it re-opened the same name)
	verifAssert(s.BytesWritten == int64(len(data)), "C15.bytes-written-restart-after-open")
	if s.TimestampOnlyOnRotate || !s.rotateEnabled() {
		verifAssert(verifFDIsName(s.f, fsActive), "C15.active-file-has-plain-name")
	}
	if st.open {
		// rotation of an open file: the old content survives under the old (or rotated) name
		if s.TimestampOnlyOnRotate {
			verifAssert(cur == data, "C08.rotate.new-file-starts-with-the-event")
			// the previous active file was renamed to a timestamped name that sorts after every older rotated file
			found := false
			names := globRotated()
			for _, n := range names {
				c, _ := readFile(n)
				if c == st.actC && !verifNameEq(n, fsDir+"/audit-zzz.log") {
					found = true
				}
			}
			pruned := s.MaxFiles > 0 && st.nRot+1+b2i(st.foreignB) > s.MaxFiles
			verifAssert(found || pruned, "C08.rotate.previous-content-kept-under-rotated-name")
		} else {
			verifAssert(cur == data, "C08.rotate.new-file-starts-with-the-event")
			c, ok := readFile(st.actName)
			pruned := s.MaxFiles > 0
			verifAssert((ok && c == st.actC) || pruned, "C08.rotate.previous-file-kept")
			verifAssert(!verifFDIsName(s.f, st.actName), "C15.rotate.new-timestamped-name")
		}
		// retention: right after the rotation at most MaxFiles rotated files (+ the new active one when it is timestamped)
		if s.MaxFiles > 0 {
			n := len(globRotated())
			extra := 0
			if !s.TimestampOnlyOnRotate {
				extra = 1
			}
			verifAssert(n <= s.MaxFiles+extra, "C15.retention.at-most-maxfiles")
		}
		st.checkRotated("C08.rotate", s.MaxFiles > 0, s.MaxFiles)
		verifReach("C08.process.rotated")
	} else {
		st.checkRotated("C08.open", s.MaxFiles > 0, s.MaxFiles)
		if s.MaxDuration == 0 && verifFDIsName(s.f, st.actName) {
			// (re)opened the existing active file and no rotation can have followed (a freshly opened file has
			// written 0 bytes; only a time limit could rotate it): strictly appended (st.actC is "" when there was none)
			verifAssert(cur == st.actC+data, "C08.open.appends-to-existing-file")
		}
		if (s.TimestampOnlyOnRotate || !s.rotateEnabled()) && !(s.MaxDuration > 0 && tEnd.Sub(st.tStart) > s.MaxDuration) {
			// the file was opened during this call, so it is no older than the call, however old what it already held is:
			// no limit is reached and the event is appended to what the plain-named file held (st.actC is "" when there was none)
			verifAssert(cur == st.actC+data, "C15.open.age-counts-from-opening")
		}
		verifReach("C08.process.opened")
	}
	m := verifFileMode(s.f.Name())
	if s.Mode != 0 {
		verifAssert(m == int(s.Mode), "C15.mode.configured")
	}
	verifAssert(verifDirMode(fsDir) == 0700 || verifDirMode(fsDir) == -1, "C15.mode.directory")
}

func b2i(b bool) int {
	if b {
		return 1
	}
	return 0
}

func globRotated() []string {
	var out []string
	ms, _ := filepath.Glob(fsDir + "/audit-*.log")
	out = append(out, ms...)
	// oldest to newest = by time stamp = by name (filepath.Glob returns sorted names; the ghost file system lists in
	// creation order, so sort here)
	sort.Strings(out)
	return out
}

// Reopen after an external rename of the active file: the old inode keeps its content under its new name,
// a fresh file is created under the active name and receives the next event.
func H_C08_Reopen() {
	R := verifParam("R")
	st := symSink(R)
	s := st.s
	renamed := false
	if st.open && nondetBool() {
		os.Rename(st.actName, fsDir+"/moved.log")
		renamed = true
	}
	err := s.Reopen()
	verifAssert(err == nil, "C08.reopen.ok")
	if err != nil {
		return
	}
	data := nondetText()
	e := &Event{Type: "t", Formatted: map[string][]byte{"json": []byte(data), "custom": []byte(data)}}
	_, perr := s.Process(context.Background(), e)
	verifAssert(perr == nil, "C08.reopen.process-ok")
	if perr != nil || s.f == nil {
		return
	}
	if renamed {
		c, ok := readFile(fsDir+"/moved.log")
		verifAssert(ok && c == st.actC, "C08.reopen.renamed-file-keeps-acknowledged-events")
		cur := verifFDContent(s.f)
		verifAssert(cur == data, "C08.reopen.new-file-gets-the-next-event")
		verifAssert(!verifFDIsName(s.f, fsDir+"/moved.log"), "C08.reopen.does-not-write-to-the-renamed-file")
		verifReach("C08.reopen.renamed")
	} else if st.open {
		cur := verifFDContent(s.f)
		if s.LastCreated.Equal(st.lc0) {
			verifAssert(cur == st.actC+data, "C08.reopen.same-file-appended")
		}
		verifReach("C08.reopen.plain")
	}
	st.checkRotated("C08.reopen", s.MaxFiles > 0, s.MaxFiles)
}

// special paths: /dev/null, stdout, stderr
func H_C13_file_specials() {
	fsInit()
	verifCaptureStd()
	s := &FileSink{FileName: "x.log"}
	data := nondetText()
	e := &Event{Type: "t", Formatted: map[string][]byte{"json": []byte(data)}}
	switch symLen(0, 2) {
	case 0:
		s.Path = "/dev/null"
		e.Formatted = nil
		out, err := s.Process(context.Background(), e)
		verifAssert(out == nil && err == nil, "C13.file.devnull-passes")
	case 1:
		s.Path = "/dev/stdout"
		_, err := s.Process(context.Background(), e)
		verifAssert(err == nil && verifStdout() == data, "C13.file.stdout-gets-the-bytes")
	case 2:
		s.Path = "/dev/stderr"
		_, err := s.Process(context.Background(), e)
		verifAssert(err == nil && verifStdout() == data, "C13.file.stderr-gets-the-bytes")
	}
	verifAssert(s.f == nil, "C13.file.specials-open-nothing")
	verifReach("C13.file.specials")
}

// C13 (write faults incl. partial writes): the descriptor the sink holds accepts only part of the event and fails; the sink
// reopens its file and retries. It may report success only if the whole event was then written, in one piece, to the
// file it now holds.
func H_C13_file_partial_write() {
	fsInit()
	s := &FileSink{Path: fsDir, FileName: "audit.log"}
	ctx := context.Background()
	first := nondetString()
	s.Process(ctx, &Event{Type: "t", Formatted: map[string][]byte{"json": []byte(first)}})
	if s.f == nil {
		return
	}
	verifPlantFailingFile(&s.f)
	data := verifBig(nondetString())
	verifAssume(data != "") // (natively verifBig never returns an empty string)
	_, err := s.Process(ctx, &Event{Type: "t", Formatted: map[string][]byte{"json": []byte(data)}})
	if err == nil {
		verifAssert(s.f != nil && verifFDIsName(s.f, fsActive), "C13.file.partial.reopened-the-log-file")
		if s.f != nil {
			verifAssert(verifFDEndsWith(s.f, data), "C13.file.partial.success-only-after-the-whole-event-was-written")
		}
		verifReach("C13.file.partial.ok")
	}
}

// ---- histories of a FileSink from a fresh directory: the C08 statement itself ------------------------------------------
//
// H operations — write an event, Reopen, external rename of the active file to a rotated name followed by Reopen — under a
// symbolic configuration (MaxBytes, MaxFiles 0..2, MaxDuration, TimestampOnlyOnRotate) and a symbolic clock. After every
// step, reading the sink's files from oldest to newest yields the acknowledged events in order, each exactly once and whole;
// with a retention limit what remains is a suffix of that sequence. Event texts are distinct literals, so the contents of
// the ghost files are concrete strings and only configuration, sizes vs limits and time are symbolic.
var fsHistEvents = [5]string{"<e0>\n", "<event-1>\n", "<e2>\n", "<ev-3>\n", "<e4>\n"}

func fsHistRead() string {
	all := ""
	for _, n := range globRotated() {
		c, _ := readFile(n)
		all += c
	}
	if c, ok := readFile(fsActive); ok {
		all += c
	}
	return all
}

func H_C08_history() {
	fsInit()
	s := &FileSink{Path: fsDir, FileName: "audit.log", Format: "custom", Mode: 0600}
	s.MaxBytes = nondetInt()
	s.MaxFiles = symLen(0, 2)
	s.MaxDuration = time.Duration(nondetInt())
	s.TimestampOnlyOnRotate = nondetBool()
	var acked []string
	H := verifParam("H")
	for i := 0; i < H; i++ {
		op := symLen(0, 2)
		verifNoteInt("op", op)
		switch op {
		case 0:
			e := &Event{Type: "t", Formatted: map[string][]byte{"custom": []byte(fsHistEvents[i])}}
			_, err := s.Process(context.Background(), e)
			verifAssert(err == nil, "C08.history.acknowledged")
			if err == nil {
				acked = append(acked, fsHistEvents[i])
			}
		case 1:
			verifAssert(s.Reopen() == nil, "C08.history.reopen-succeeds")
		case 2:
			if s.f != nil {
				// an external tool moves the active file aside under a rotated name, then asks the sink to reopen
				os.Rename(s.f.Name(), stamped(int(time.Now().UnixNano())))
				verifAssert(s.Reopen() == nil, "C08.history.reopen-after-rename-succeeds")
			}
		}
		all := fsHistRead()
		want := ""
		for _, a := range acked {
			want += a
		}
		if s.MaxFiles == 0 {
			verifAssert(all == want, "C08.history.files-hold-exactly-the-acknowledged-sequence")
		} else {
			ok := all == want
			suffix := want
			for _, a := range acked {
				suffix = suffix[len(a):]
				if all == suffix {
					ok = true
				}
			}
			verifAssert(ok, "C08.history.files-hold-a-suffix-of-the-acknowledged-sequence")
			// the newest event is never the one that retention removes
			if len(acked) > 0 {
				last := acked[len(acked)-1]
				verifAssert(len(all) >= len(last) && all[len(all)-len(last):] == last, "C08.history.newest-acknowledged-event-present")
			}
		}
	}
	verifReach("C08.history.end")
}

// two concurrent writers on one FileSink (every lock operation is a possible context switch): both events are acknowledged
// and each is in the sink's files exactly once and whole, in one of the two orders
func H_C08_concurrent_writers() {
	fsInit()
	s := &FileSink{Path: fsDir, FileName: "audit.log", Format: "custom", Mode: 0600}
	s.MaxBytes = nondetInt()
	s.TimestampOnlyOnRotate = nondetBool()
	if nondetBool() {
		// the file is already open and holds an earlier event
		s.Process(context.Background(), &Event{Type: "t", Formatted: map[string][]byte{"custom": []byte("<first>\n")}})
	}
	before := fsHistRead()
	a, b := "<writer-a>\n", "<wr-b>\n"
	var ea, eb error
	verifInterleave(true)
	verifGo(func() {
		_, ea = s.Process(context.Background(), &Event{Type: "t", Formatted: map[string][]byte{"custom": []byte(a)}})
	})
	verifGo(func() {
		_, eb = s.Process(context.Background(), &Event{Type: "t", Formatted: map[string][]byte{"custom": []byte(b)}})
	})
	verifJoin()
	verifInterleave(false)
	verifAssert(ea == nil && eb == nil, "C08.concurrent.both-acknowledged")
	all := fsHistRead()
	verifAssert(all == before+a+b || all == before+b+a, "C08.concurrent.each-event-once-and-whole")
	verifReach("C08.concurrent.end")
}

// the sink's directory is created on demand (mode 0700), the first file gets the configured mode, 0600 when unset
func H_C15_fresh_directory() {
	fsInit()
	dir := fsDir + "/a/b"
	s := &FileSink{Path: dir, FileName: "audit.log", Format: "custom"}
	s.Mode = os.FileMode(nondetInt())
	verifAssume(s.Mode >= 0)
	verifAssume(s.Mode <= 0777)
	s.TimestampOnlyOnRotate = nondetBool()
	s.MaxBytes = nondetInt()
	_, err := s.Process(context.Background(), &Event{Type: "t", Formatted: map[string][]byte{"custom": []byte("<e>\n")}})
	verifAssert(err == nil, "C15.fresh-directory.first-write-succeeds")
	if err != nil || s.f == nil {
		return
	}
	verifAssert(verifDirMode(dir) == 0700, "C15.fresh-directory.created-with-0700")
	m := verifFileMode(s.f.Name())
	if s.Mode != 0 {
		verifAssert(m == int(s.Mode), "C15.fresh-directory.file-has-configured-mode")
	} else {
		verifAssert(m == 0600, "C15.fresh-directory.file-has-0600-when-unset")
	}
	verifAssert(verifFDContent(s.f) == "<e>\n", "C15.fresh-directory.event-written")
	// "created on demand" holds every time a file is opened: the directory may have been cleaned away meanwhile
	if nondetBool() {
		os.RemoveAll(dir)
		verifAssert(s.Reopen() == nil, "C15.fresh-directory.reopen-recreates-the-directory")
		_, err = s.Process(context.Background(), &Event{Type: "t", Formatted: map[string][]byte{"custom": []byte("<e2>\n")}})
		verifAssert(err == nil && s.f != nil, "C15.fresh-directory.write-after-recreation")
		if s.f != nil {
			verifAssert(verifDirMode(dir) == 0700, "C15.fresh-directory.recreated-with-0700")
			c, ok := readFile(s.f.Name())
			verifAssert(ok && c == "<e2>\n", "C15.fresh-directory.event-in-the-recreated-directory")
		}
		verifReach("C15.fresh-directory.recreated")
	}
	verifReach("C15.fresh-directory.end")
}

// file names: a rotated file is the configured name with the time stamp inserted before the extension — the part after the
// LAST dot (".log" when the name has none) — so names with several dots keep their own name space
func H_C15_file_names() {
	fsInit()
	names := [4]string{"audit.log", "app.audit.log", "audit", "a.b.c.log"}
	bases := [4]string{"audit", "app.audit", "audit", "a.b.c"}
	exts := [4]string{".log", ".log", ".log", ".log"}
	k := symLen(0, 3)
	s := &FileSink{Path: fsDir, FileName: names[k], Format: "custom", MaxBytes: 1, TimestampOnlyOnRotate: true}
	ctx := context.Background()
	_, e1 := s.Process(ctx, &Event{Type: "t", Formatted: map[string][]byte{"custom": []byte("<one>\n")}})
	_, e2 := s.Process(ctx, &Event{Type: "t", Formatted: map[string][]byte{"custom": []byte("<two>\n")}})
	verifAssert(e1 == nil && e2 == nil, "C15.file-names.writes-succeed")
	rotated, _ := filepath.Glob(fsDir + "/" + bases[k] + "-*" + exts[k])
	verifAssert(len(rotated) == 1, "C15.file-names.rotated-file-is-name-stamp-extension")
	if len(rotated) == 1 {
		c, _ := readFile(rotated[0])
		verifAssert(c == "<one>\n", "C15.file-names.rotated-file-holds-the-first-event")
	}
	c, ok := readFile(fsDir + "/" + names[k])
	verifAssert(ok && c == "<two>\n", "C15.file-names.active-file-keeps-the-configured-name")
	verifReach("C15.file-names.end")
}
