package __PKG__

import (
	"context"
)

// stateless stub node (the harness itself must not introduce shared writes)
type rNode struct{ typ NodeType }

func (n *rNode) Process(ctx context.Context, e *Event) (*Event, error) { return e, nil }
func (n *rNode) Reopen() error                                        { return nil }
func (n *rNode) Type() NodeType                                       { return n.typ }
func (n *rNode) Close(ctx context.Context) error                      { return nil }

type rState struct {
	b        *Broker
	t, u     EventType
	pid, qid PipelineID
	f, s     NodeID
	ctx      context.Context
	fmtNode  *rNode
	sinkNode *rNode
}

// a small concrete-shaped registry: nodes f (formatter) and s (sink); type t with pipeline pid=[f,s] (present or
// not); thresholds symbolic; a second type u (present or not).
func raceBroker() *rState {
	r := &rState{t: "t", u: "u", pid: "p", qid: "q", f: "f", s: "s", ctx: &vCtx{}}
	b, _ := NewBroker()
	r.b = b
	r.fmtNode, r.sinkNode = &rNode{typ: NodeTypeFormatter}, &rNode{typ: NodeTypeSink}
	b.RegisterNode(r.f, r.fmtNode)
	b.RegisterNode(r.s, r.sinkNode)
	if nondetBool() {
		b.RegisterPipeline(Pipeline{PipelineID: r.pid, EventType: r.t, NodeIDs: []NodeID{r.f, r.s}})
		if nondetBool() {
			b.RegisterPipeline(Pipeline{PipelineID: r.qid, EventType: r.t, NodeIDs: []NodeID{r.f, r.s}})
		}
	}
	if nondetBool() {
		b.SetSuccessThreshold(r.u, 1)
	}
	return r
}

const nBrokerOps = 12

func (r *rState) op(k int, v int) {
	b := r.b
	switch k {
	case 0:
		b.Send(r.ctx, r.t, "payload")
	case 1:
		b.RegisterNode(r.f, r.fmtNode)
	case 2:
		b.RegisterPipeline(Pipeline{PipelineID: r.pid, EventType: r.t, NodeIDs: []NodeID{r.f, r.s}})
	case 3:
		b.RemovePipeline(r.t, r.pid)
	case 4:
		b.RemovePipelineAndNodes(r.ctx, r.t, r.pid)
	case 5:
		b.RemoveNode(r.ctx, r.f)
	case 6:
		b.SetSuccessThreshold(r.t, v)
	case 7:
		b.SetSuccessThresholdSinks(r.t, v)
	case 8:
		b.SuccessThreshold(r.t)
	case 9:
		b.SuccessThresholdSinks(r.t)
	case 10:
		b.IsAnyPipelineRegistered(r.t)
	case 11:
		b.Reopen(r.ctx)
	}
}

// every ordered pair of Broker API calls, run as two concurrent regions from a common pre-state; the engine logs
// every heap access with the lockset held and reports conflicting accesses not ordered by a common lock.
func H_C04_api_pairs() {
	r := raceBroker()
	a := symLen(0, nBrokerOps-1)
	c := symLen(0, nBrokerOps-1)
	va, vc := nondetInt(), nondetInt()
	verifAssume(va >= 0)
	verifAssume(vc >= 0)
	verifNoteInt("opA", a)
	verifNoteInt("opB", c)
	verifPar(func() { r.op(a, va) }, func() { r.op(c, vc) })
	verifReach("C04.pairs.end")
}
