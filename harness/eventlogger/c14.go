package __PKG__

import (
	"bytes"
	"context"
	"encoding/json"
	"time"
)

type fPayload struct {
	a string
	b int
	// T is ordinary text that ends up inside the JSON document
	T string `json:"t"`
	// X is nil, except in native replays of runs in which the solver let the JSON encoder fail
	X interface{} `json:"x,omitempty"`
}

// symEvent: an event with symbolic type/time and a format table that is nil or holds up to 2 symbolic entries
func symEvent() (*Event, *fPayload, [2]string, [2]string, int) {
	p := &fPayload{a: nondetString(), b: nondetInt(), T: nondetText(), X: verifMaybeUnencodable()}
	e := &Event{Type: EventType(nondetText()), CreatedAt: time.Unix(0, int64(nondetInt())), Payload: p}
	if nondetBool() {
		// no payload at all: the document still has a payload member (null)
		e.Payload = nil
	}
	if nondetBool() {
		// an event not made by a Broker may carry the zero creation time: that is the time the document reports
		e.CreatedAt = time.Time{}
	}
	var ks, vs [2]string
	n := 0
	if nondetBool() {
		e.Formatted = map[string][]byte{}
		n = symLen(0, 2)
		for i := 0; i < n; i++ {
			ks[i], vs[i] = nondetString(), nondetText()
			if i == 1 {
				verifAssume(ks[1] != ks[0])
			}
			e.Formatted[ks[i]] = []byte(vs[i])
		}
	}
	return e, p, ks, vs, n
}

func refJSON(e *Event) (string, bool) {
	buf := &bytes.Buffer{}
	enc := json.NewEncoder(buf)
	err := enc.Encode(struct {
		CreatedAt time.Time `json:"created_at"`
		EventType `json:"event_type"`
		Payload   interface{} `json:"payload"`
	}{e.CreatedAt, e.Type, e.Payload})
	return buf.String(), err == nil
}

func checkFormatted(e *Event, ks, vs [2]string, n int, jsonSet bool, want string, tag string) {
	for i := 0; i < n; i++ {
		v, ok := e.Format(ks[i])
		if jsonSet && ks[i] == JSONFormat {
			continue
		}
		verifAssert(ok && string(v) == vs[i], tag+".other-formats-kept")
	}
	v, ok := e.Format(JSONFormat)
	if jsonSet {
		verifAssert(ok && verifJSONEquivalent(string(v), want), tag+".json-is-faithful-encoding")
	}
}

func H_C14_JSONFormatter() {
	e, p, ks, vs, n := symEvent()
	a0, b0, t0, c0, pl0 := p.a, p.b, e.Type, e.CreatedAt, e.Payload
	want, encodable := refJSON(e)
	if e.Payload == nil {
		// a document of a time in range, a string and null always encodes: the encoder's failure is the payload's doing
		verifAssume(encodable)
	}
	var out *Event
	var err error
	pk := 0
	predErr := &vErr{"pred"}
	if nondetBool() {
		out, err = (&JSONFormatter{}).Process(context.Background(), e)
	} else {
		ff := &JSONFormatterFilter{}
		pk = symLen(0, 4)
		if pk > 0 {
			ff.Predicate = func(x interface{}) (bool, error) {
				switch pk {
				case 1:
					return true, nil
				case 2:
					return false, nil
				case 4:
					// an error is an error whatever the boolean says
					return true, predErr
				}
				return false, predErr
			}
		}
		out, err = ff.Process(context.Background(), e)
	}
	verifAssert(p.a == a0 && p.b == b0 && e.Type == t0 && e.CreatedAt.Equal(c0) && verifSame(e.Payload, pl0), "C14.event-and-payload-untouched")
	if !encodable {
		verifAssert(err != nil && out == nil, "C14.unencodable-payload-is-error")
		checkFormatted(e, ks, vs, n, false, "", "C14.unencodable")
		_, had := e.Format(JSONFormat)
		hadBefore := false
		for i := 0; i < n; i++ {
			hadBefore = verifOr(hadBefore, ks[i] == JSONFormat)
		}
		verifAssert(had == hadBefore, "C14.unencodable-stores-nothing")
		verifReach("C14.unencodable")
		return
	}
	checkFormatted(e, ks, vs, n, true, want, "C14.ok")
	switch pk {
	case 0, 1:
		verifAssert(err == nil && out == e, "C14.forwards-same-event")
		verifReach("C14.forwarded")
	case 2:
		verifAssert(err == nil && out == nil, "C14.predicate-false-drops")
	case 3, 4:
		verifAssert(err == predErr && out == nil, "C14.predicate-error-is-error")
	}
}

func H_C14_Filter() {
	e, _, ks, vs, n := symEvent()
	pk := symLen(1, 4)
	predErr := &vErr{"pred"}
	var shown *Event
	f := &Filter{Predicate: func(x *Event) (bool, error) {
		shown = x
		switch pk {
		case 1:
			return true, nil
		case 2:
			return false, nil
		case 4:
			return true, predErr
		}
		return false, predErr
	}}
	out, err := f.Process(context.Background(), e)
	verifAssert(shown == e, "C14.filter.predicate-sees-event")
	switch pk {
	case 1:
		verifAssert(err == nil && out == e, "C14.filter.true-forwards")
	case 2:
		verifAssert(err == nil && out == nil, "C14.filter.false-drops")
	case 3, 4:
		verifAssert(err == predErr && out == nil, "C14.filter.error")
	}
	checkFormatted(e, ks, vs, n, false, "", "C14.filter")
	verifReach("C14.filter.end")
}

func H_C14_FormattedAs() {
	e, _, ks, vs, n := symEvent()
	k, v := nondetString(), nondetString()
	q := nondetString()
	before, had := e.Format(q)
	e.FormattedAs(k, []byte(v))
	got, ok := e.Format(k)
	verifAssert(ok && string(got) == v, "C14.table.last-writer-wins")
	after, has := e.Format(q)
	if q != k {
		verifAssert(has == had && string(after) == string(before), "C14.table.other-keys-unchanged")
	}
	for i := 0; i < n; i++ {
		if ks[i] != k {
			x, ok := e.Format(ks[i])
			verifAssert(ok && string(x) == vs[i], "C14.table.existing-kept")
		}
	}
	if nondetBool() {
		// the last writer may have had nothing to store: that is still an entry
		e.FormattedAs(k, nil)
		got, ok := e.Format(k)
		verifAssert(ok && len(got) == 0, "C14.table.empty-value-is-an-entry")
		e.FormattedAs(k, []byte{})
		got, ok = e.Format(k)
		verifAssert(ok && len(got) == 0, "C14.table.empty-value-is-an-entry")
	}
	verifReach("C14.table.end")
}

// two events through the same formatter: what was stored for the first must survive formatting the second
// (the stored slice must not alias memory that a later Process call reuses)
func H_C14_two_events() {
	eA, _, _, _, _ := symEvent()
	eB, _, _, _, _ := symEvent()
	refA, okA := refJSON(eA)
	ctx := context.Background()
	if nondetBool() {
		f := &JSONFormatter{}
		f.Process(ctx, eA)
		f.Process(ctx, eB)
	} else {
		f := &JSONFormatterFilter{}
		f.Process(ctx, eA)
		f.Process(ctx, eB)
	}
	if okA {
		got, ok := eA.Format(JSONFormat)
		verifAssert(ok && string(got) == refA, "C14.stored-bytes-survive-later-events")
		verifReach("C14.two.end")
	}
}
