package __PKG__

import "context"

func verifCancelledCtx(withCause bool) context.Context {
	ctx, cancel := context.WithCancelCause(context.Background())
	if withCause {
		cancel(&vErr{"cause"})
	} else {
		cancel(nil)
	}
	return ctx
}
