package __PKG__

import (
	"context"
	"time"
)

// slowDoneCtx: when the replayed run let a new goroutine run first, Done() takes a moment, which gives the library's
// goroutines the same head start natively
type slowDoneCtx struct{ context.Context }

func (c *slowDoneCtx) Done() <-chan struct{} {
	if verifExtTrue("new goroutine runs first") {
		time.Sleep(3 * time.Millisecond)
	}
	return c.Context.Done()
}

func verifCancelledCtx(withCause bool) context.Context {
	ctx, cancel := context.WithCancelCause(context.Background())
	if withCause {
		cancel(&vErr{"cause"})
	} else {
		cancel(nil)
	}
	return &slowDoneCtx{ctx}
}
