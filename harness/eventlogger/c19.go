package __PKG__

import (
	"context"
)

// ---- C19 (core package): stock nodes sharing one Event, and the Event's own table ------------------------------

func stockNode(k int) Node {
	switch k {
	case 0:
		return &Filter{Predicate: func(e *Event) (bool, error) { return e.Type != "", nil }}
	case 1:
		return &JSONFormatter{}
	case 2:
		return &JSONFormatterFilter{Predicate: func(e interface{}) (bool, error) { return true, nil }}
	}
	return &JSONFormatterFilter{}
}

// two pipelines of one event type process the same *Event concurrently: every ordered pair of core node kinds
func H_C19_core_pairs() {
	e := &Event{Type: EventType(nondetString()), Formatted: map[string][]byte{}, Payload: &fPayload{a: nondetString()}}
	if nondetBool() {
		e.Formatted = nil
	}
	a, b := symLen(0, 3), symLen(0, 3)
	na, nb := stockNode(a), stockNode(b)
	if nondetBool() {
		nb = na // one node instance shared by both pipelines
	}
	ctx := context.Background()
	verifNoteInt("nodeA", a)
	verifNoteInt("nodeB", b)
	verifPar(func() { na.Process(ctx, e) }, func() { nb.Process(ctx, e) })
	verifReach("C19.core.end")
}

// Event.FormattedAs / Format from concurrent goroutines
func H_C19_event_table() {
	e := &Event{}
	if nondetBool() {
		e.Formatted = map[string][]byte{"x": []byte("y")}
	}
	k1, k2 := nondetString(), nondetString()
	opA, opB := symLen(0, 1), symLen(0, 1)
	do := func(op int, k string) {
		if op == 0 {
			e.FormattedAs(k, []byte("v"))
		} else {
			e.Format(k)
		}
	}
	verifPar(func() { do(opA, k1) }, func() { do(opB, k2) })
	verifReach("C19.table.end")
}

// FileSink shared by concurrent senders and a concurrent Reopen (ghost file system)
func H_C19_filesink_pairs() {
	fsInit()
	s := &FileSink{Path: fsDir, FileName: "audit.log", MaxBytes: nondetInt(), MaxFiles: 1, TimestampOnlyOnRotate: nondetBool()}
	switch symLen(0, 2) {
	case 1:
		// the pass-through specials share the sink's counters as well
		verifCaptureStd()
		s.Path = "/dev/stdout"
	case 2:
		verifCaptureStd()
		s.Path = "/dev/stderr"
	}
	e1 := &Event{Type: "t", Formatted: map[string][]byte{"json": []byte(nondetString())}}
	e2 := &Event{Type: "t", Formatted: map[string][]byte{"json": []byte(nondetString())}}
	ctx := context.Background()
	if nondetBool() {
		s.Process(ctx, e1) // the file is already open
	}
	k := symLen(0, 1)
	verifPar(func() { s.Process(ctx, e1) }, func() {
		if k == 0 {
			s.Process(ctx, e2)
		} else {
			s.Reopen()
		}
	})
	verifReach("C19.filesink.end")
}
