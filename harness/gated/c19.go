package __PKG__

import (
	"context"

	"github.com/hashicorp/eventlogger"
)

func H_C19_gated_pairs() {
	s := symFilter(1, 1)
	ctx := context.Background()
	mk := func() *eventlogger.Event {
		return &eventlogger.Event{Type: "gated", Payload: &gPayload{id: nondetString(), flush: nondetBool()}}
	}
	e1, e2 := mk(), mk()
	verifAssume(e1.Payload.(*gPayload).id != "")
	verifAssume(e2.Payload.(*gPayload).id != "")
	k := symLen(0, 2)
	verifPar(func() { s.w.Process(ctx, e1) }, func() {
		switch k {
		case 0:
			s.w.Process(ctx, e2)
		case 1:
			s.w.FlushAll(ctx)
		case 2:
			s.w.Close(ctx)
		}
	})
	verifReach("C19.gated.end")
}
