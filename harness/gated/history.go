package __PKG__

import (
	"context"
	"time"

	"github.com/hashicorp/eventlogger"
)

// ---- histories of a gated.Filter from its zero value against a reference model (C11, C17) -----------------------------
//
// Complements the inductive-step harnesses (whose arbitrary pre-state ranges over today's fields only): every history of H
// operations — gate an event of id a / b, flush a / b, a non-Gateable event, advance the clock by an arbitrary amount,
// FlushAll, Close — is compared after each step with a model: the ordered list of open groups with their events and expiry
// instants. Composition and sending always succeed here (their failures are the inductive harness's subject).

type hgPayload struct {
	id    string
	flush bool
}

type hgComposite struct{ of []*eventlogger.Event }

var hgComposed [][]*eventlogger.Event
var hgSent []interface{}

func (p *hgPayload) GetID() string    { return p.id }
func (p *hgPayload) FlushEvent() bool { return p.flush }
func (p *hgPayload) ComposeFrom(events []*eventlogger.Event) (eventlogger.EventType, interface{}, error) {
	c := append([]*eventlogger.Event(nil), events...)
	hgComposed = append(hgComposed, c)
	return "composite", &hgComposite{of: c}, nil
}

type hgSender struct{}

func (s *hgSender) Send(ctx context.Context, t eventlogger.EventType, payload interface{}) (eventlogger.Status, error) {
	hgSent = append(hgSent, payload)
	return eventlogger.Status{}, nil
}

type hgGroup struct {
	id     string
	events []*eventlogger.Event
	exp    int
}

type hgModel struct {
	w       *Filter
	broker  bool
	now, d  int
	groups  []hgGroup // oldest first
	wantCmp [][]*eventlogger.Event
	wantSnd int
}

// emit: the model's group i leaves the filter through the Broker (or is dropped without one)
func (m *hgModel) emit(g hgGroup) {
	if m.broker {
		m.wantCmp = append(m.wantCmp, g.events)
		m.wantSnd++
	}
}

func (m *hgModel) expire() {
	var keep []hgGroup
	for _, g := range m.groups {
		if m.now > g.exp {
			// without a Broker the real filter still composes the group before dropping it
			if !m.broker {
				m.wantCmp = append(m.wantCmp, g.events)
			}
			m.emit(g)
		} else {
			keep = append(keep, g)
		}
	}
	m.groups = keep
}

func (m *hgModel) process(id string, flush bool, tag string) {
	e := &eventlogger.Event{Type: "gated", CreatedAt: time.Unix(0, int64(nondetInt())), Payload: &hgPayload{id: id, flush: flush}}
	out, err := m.w.Process(gMaybeDoneCtx(), e)
	verifAssert(err == nil, tag+".process-succeeds")
	m.expire()
	idx := -1
	for i, g := range m.groups {
		if g.id == id {
			idx = i
		}
	}
	if idx < 0 {
		m.groups = append(m.groups, hgGroup{id: id, exp: m.now + m.d})
		idx = len(m.groups) - 1
	}
	m.groups[idx].events = append(m.groups[idx].events, e)
	if !flush {
		verifAssert(out == nil, tag+".gated-event-withheld")
		return
	}
	g := m.groups[idx]
	m.groups = append(append([]hgGroup(nil), m.groups[:idx]...), m.groups[idx+1:]...)
	m.wantCmp = append(m.wantCmp, g.events)
	verifAssert(out != nil, tag+".flush-returns-composite")
	if out != nil {
		c, ok := out.Payload.(*hgComposite)
		verifAssert(ok && sameEvents(c.of, g.events), tag+".flush-composite-is-the-whole-group-in-order")
	}
}

func (m *hgModel) flushAll(close bool, tag string) {
	var err error
	if close {
		err = m.w.Close(context.Background())
	} else {
		err = m.w.FlushAll(context.Background())
	}
	verifAssert(err == nil, tag+".flushall-succeeds")
	for _, g := range m.groups {
		m.emit(g)
	}
	m.groups = nil
}

func (m *hgModel) agree(tag string) {
	verifAssert(len(m.w.gated) == len(m.groups), tag+".open-groups")
	verifAssert(len(hgComposed) == len(m.wantCmp), tag+".compositions")
	for i := range m.wantCmp {
		if i < len(hgComposed) {
			verifAssert(sameEvents(hgComposed[i], m.wantCmp[i]), tag+".composition-order-and-content")
		}
	}
	verifAssert(len(hgSent) == m.wantSnd, tag+".sends")
	for i, p := range hgSent {
		c, ok := p.(*hgComposite)
		verifAssert(ok && i < len(hgComposed), tag+".sent-payload-is-a-composite")
	_ = c
	}
}

func H_C11_history_vs_model() {
	hgComposed, hgSent = nil, nil
	m := &hgModel{w: &Filter{}}
	m.now = nondetInt()
	verifAssume(m.now > 0)
	m.d = nondetInt()
	verifAssume(m.d > 0)
	m.w.Expiration = time.Duration(m.d)
	m.w.NowFunc = func() time.Time { return time.Unix(0, int64(m.now)) }
	if nondetBool() {
		m.broker = true
		m.w.Broker = &hgSender{}
	}
	H := verifParam("H")
	for i := 0; i < H; i++ {
		op := symLen(0, 7)
		verifNoteInt("op", op)
		tag := "C11.history"
		switch op {
		case 0:
			m.process("a", false, tag)
		case 1:
			m.process("b", false, tag)
		case 2:
			m.process("a", true, tag)
		case 3:
			m.process("b", true, tag)
		case 4:
			delta := nondetInt()
			verifAssume(delta >= 0)
			m.now += delta
		case 5:
			m.flushAll(false, tag)
		case 6:
			m.flushAll(true, tag)
		case 7:
			e := &eventlogger.Event{Type: "plain", Payload: &gPlain{}}
			out, err := m.w.Process(context.Background(), e)
			verifAssert(err == nil && out == e, tag+".non-gateable-passes-through")
		}
		m.agree(tag)
	}
	// C17: after a final successful Close nothing remains and every group was emitted exactly once
	m.flushAll(true, "C17.history.final")
	m.agree("C17.history.final")
	verifAssert(len(m.w.gated) == 0, "C17.history.nothing-remains-gated")
	verifReach("C11.history.end")
}

// staggered expiries: three groups opened at arbitrary successive instants, then two further events at arbitrary later
// instants. One fixed operation sequence, every instant symbolic: which groups have expired at each probe is decided by the
// solver, and the model says exactly which must have been emitted (oldest first) by then. Reaches histories the bounded
// enumeration above is too shallow for (a sweep that emits one group, a later sweep that must emit the next).
func H_C17_staggered_expiry() {
	hgComposed, hgSent = nil, nil
	m := &hgModel{w: &Filter{}}
	m.now = nondetInt()
	verifAssume(m.now > 0)
	m.d = nondetInt()
	verifAssume(m.d > 0)
	m.w.Expiration = time.Duration(m.d)
	m.w.NowFunc = func() time.Time { return time.Unix(0, int64(m.now)) }
	if nondetBool() {
		m.broker = true
		m.w.Broker = &hgSender{}
	}
	tag := "C17.staggered"
	ids := [5]string{"a", "b", "c", "d", "e"}
	for i := 0; i < 5; i++ {
		delta := nondetInt()
		verifAssume(delta >= 0)
		m.now += delta
		m.process(ids[i], false, tag)
		m.agree(tag)
		// C17: after a successful Process at time T no group that expired before T remains
		for _, g := range m.groups {
			verifAssert(!(m.now > g.exp), tag+".model-consistent")
		}
		n := 0
		for _, ge := range m.w.gated {
			if m.now > int(ge.exp.UnixNano()) {
				n++
			}
		}
		verifAssert(n == 0, tag+".no-expired-group-remains")
	}
	verifReach("C17.staggered.end")
}
