package __PKG__

import (
	"container/list"
	"context"
	"time"

	"github.com/hashicorp/eventlogger"
)

// ---- stubs ------------------------------------------------------------------------------------

// gDone: a context that is already done (the filter's duties do not depend on the caller's context)
type gDone struct{ ch chan struct{} }

func (c *gDone) Deadline() (time.Time, bool) { return time.Time{}, false }
func (c *gDone) Done() <-chan struct{}        { return c.ch }
func (c *gDone) Err() error                   { return context.Canceled }
func (c *gDone) Value(key any) any            { return nil }

// gMaybeDoneCtx: a live context or one that is already done — the solver's choice
func gMaybeDoneCtx() context.Context {
	if nondetBool() {
		c := &gDone{ch: make(chan struct{})}
		close(c.ch)
		return c
	}
	return context.Background()
}

type gErr struct{ tag string }

func (e *gErr) Error() string { return e.tag }

type gPlain struct{ n int }

// gPayload is the Gateable payload used by the harness; composition is recorded by gCompose.
type gPayload struct {
	id    string
	flush bool
}

func (p *gPayload) GetID() string   { return p.id }
func (p *gPayload) FlushEvent() bool { return p.flush }
func (p *gPayload) ComposeFrom(events []*eventlogger.Event) (eventlogger.EventType, interface{}, error) {
	return gCompose(events)
}

type gComposeCall struct {
	args    []*eventlogger.Event
	t       eventlogger.EventType
	payload interface{}
	err     error
}

type gSendCall struct {
	t       eventlogger.EventType
	payload interface{}
	err     error
}

var gLog struct {
	composes []*gComposeCall
	sends    []*gSendCall
}

func gCompose(events []*eventlogger.Event) (eventlogger.EventType, interface{}, error) {
	c := &gComposeCall{t: eventlogger.EventType(nondetString())}
	c.args = append(c.args, events...)
	switch symLen(0, 2) {
	case 0:
		c.payload = &gPlain{}
	case 1:
		c.payload = &gPayload{id: "composite"}
	case 2:
		c.err = &gErr{"compose"}
	}
	gLog.composes = append(gLog.composes, c)
	return c.t, c.payload, c.err
}

type gSender struct{}

func (s *gSender) Send(ctx context.Context, t eventlogger.EventType, payload interface{}) (eventlogger.Status, error) {
	c := &gSendCall{t: t, payload: payload}
	if nondetBool() {
		c.err = &gErr{"send"}
	}
	gLog.sends = append(gLog.sends, c)
	return eventlogger.Status{}, c.err
}

func symLen(lo, hi int) int {
	n := nondetInt()
	verifAssume(n >= lo)
	verifAssume(n <= hi)
	c := lo
	for c < n {
		c++
	}
	return c
}

// ---- arbitrary filter state under the representation invariant -----------------------------------

type gGroup struct {
	id     string
	ge     *gatedEvent
	events []*eventlogger.Event
	exp    int // ns
}

type gState struct {
	w      *Filter
	n      int
	grp    [4]*gGroup
	now    int
	expDur int
	broker bool
}

func sameEvents(a, b []*eventlogger.Event) bool {
	if len(a) != len(b) {
		return false
	}
	for i := range a {
		if a[i] != b[i] {
			return false
		}
	}
	return true
}

func symFilter(G, E int) *gState {
	s := &gState{}
	gLog.composes = nil
	gLog.sends = nil
	w := &Filter{}
	s.w = w
	s.now = nondetInt()
	verifAssume(s.now > 0)
	w.NowFunc = func() time.Time { return time.Unix(0, int64(s.now)) }
	if nondetBool() {
		s.broker = true
		w.Broker = &gSender{}
	}
	s.n = symLen(0, G)
	if s.n == 0 {
		// fresh or emptied filter: maps may be nil or empty, composeFrom set or not, Expiration any value >= 0
		s.expDur = nondetInt()
		verifAssume(s.expDur >= 0)
		w.Expiration = time.Duration(s.expDur)
		switch symLen(0, 2) {
		case 1:
			w.gated = map[string]*gatedEvent{}
			w.orderedGated = list.New()
			w.composeFrom = gCompose
		case 2:
			w.composeFrom = gCompose
		}
		return s
	}
	s.expDur = nondetInt()
	verifAssume(s.expDur > 0)
	w.Expiration = time.Duration(s.expDur)
	w.gated = map[string]*gatedEvent{}
	w.orderedGated = list.New()
	w.composeFrom = gCompose
	prevExp := 0
	for i := 0; i < s.n; i++ {
		g := &gGroup{id: nondetString(), exp: nondetInt()}
		verifAssume(g.id != "")
		for j := 0; j < i; j++ {
			verifAssume(g.id != s.grp[j].id)
		}
		// A-gated-mono: expiry instants are non-decreasing along the list and no later than now+Expiration
		verifAssume(g.exp >= prevExp)
		verifAssume(g.exp > 0)
		verifAssume(g.exp <= s.now+s.expDur)
		prevExp = g.exp
		ne := symLen(1, E)
		for k := 0; k < ne; k++ {
			g.events = append(g.events, &eventlogger.Event{Type: "gated", CreatedAt: time.Unix(0, int64(nondetInt())), Payload: &gPayload{id: g.id}})
		}
		ge := &gatedEvent{id: g.id, exp: time.Unix(0, int64(g.exp))}
		ge.events = append(ge.events, g.events...)
		ge.element = w.orderedGated.PushBack(ge)
		w.gated[g.id] = ge
		g.ge = ge
		s.grp[i] = g
	}
	return s
}

func (s *gState) composedCount(ev []*eventlogger.Event) int {
	n := 0
	for _, c := range gLog.composes {
		if sameEvents(c.args, ev) {
			n++
		}
	}
	return n
}

// checkInv: gated and orderedGated describe the same groups, consistently linked
func (s *gState) checkInv(tag string) {
	w := s.w
	if w.gated == nil || w.orderedGated == nil {
		verifAssert(len(w.gated) == 0, tag+".inv.nil-means-empty")
		return
	}
	verifAssert(len(w.gated) == w.orderedGated.Len(), tag+".inv.same-size")
	n := 0
	prev := time.Time{}
	limit := time.Unix(0, int64(s.now)).Add(w.Expiration)
	for e := w.orderedGated.Front(); e != nil; e = e.Next() {
		n++
		if n > 6 {
			break
		}
		ge, ok := e.Value.(*gatedEvent)
		verifAssert(ok && ge != nil, tag+".inv.element-type")
		if !ok || ge == nil {
			return
		}
		verifAssert(ge.element == e, tag+".inv.element-backlink")
		got, present := w.gated[ge.id]
		verifAssert(present && got == ge, tag+".inv.map-entry")
		verifAssert(ge.id != "", tag+".inv.id-nonempty")
		verifAssert(len(ge.events) >= 1, tag+".inv.group-nonempty")
		// the ordering the expiry sweep relies on is preserved: expiry instants non-decreasing along the list
		verifAssert(!ge.exp.Before(prev), tag+".inv.ordered-by-expiry")
		verifAssert(!ge.exp.After(limit), tag+".inv.expiry-bounded")
		prev = ge.exp
	}
	verifAssert(n == w.orderedGated.Len(), tag+".inv.list-len")
}

// groupIntact: group i is still gated with exactly its events (plus, optionally, one appended event)
func (s *gState) groupStill(i int, extra *eventlogger.Event, tag string) {
	g := s.grp[i]
	ge, ok := s.w.gated[g.id]
	verifAssert(ok && ge == g.ge, tag+".still-gated")
	if !ok || ge != g.ge {
		return
	}
	want := append([]*eventlogger.Event{}, g.events...)
	if extra != nil {
		want = append(want, extra)
	}
	verifAssert(sameEvents(ge.events, want), tag+".events-kept-in-order")
	verifAssert(s.composedCount(g.events) == 0, tag+".not-composed-while-gated")
}

func (s *gState) groupGone(i int) bool {
	g := s.grp[i]
	ge, ok := s.w.gated[g.id]
	return !ok || ge != g.ge
}

// ---- C11 / C17: Process -------------------------------------------------------------------------

func H_C11_Process_gateable() {
	G, E := verifParam("G"), verifParam("E")
	s := symFilter(G, E)
	id := nondetString()
	verifAssume(id != "")
	flush := nondetBool()
	ev := &eventlogger.Event{Type: "gated", CreatedAt: time.Unix(0, int64(nondetInt())), Payload: &gPayload{id: id, flush: flush}}
	// which open group (if any) has this id
	hit := -1
	for i := 0; i < s.n; i++ {
		if s.grp[i].id == id {
			hit = i
		}
	}
	out, err := s.w.Process(gMaybeDoneCtx(), ev)
	// --- nothing is ever composed twice, and every compose call gets exactly one group's events in arrival order
	for i := 0; i < s.n; i++ {
		verifAssert(s.composedCount(s.grp[i].events) <= 1, "C11.process.group-composed-at-most-once")
	}
	ncomp := len(gLog.composes)
	// --- expiry (C17): on success no group with exp < now remains; emitted oldest first
	expired := 0
	for i := 0; i < s.n; i++ {
		g := s.grp[i]
		isExp := s.now > g.exp
		if err == nil {
			if isExp {
				verifAssert(s.groupGone(i), "C17.process.expired-group-removed")
				verifAssert(s.composedCount(g.events) == 1, "C17.process.expired-group-emitted-once")
			}
		}
		if isExp && s.groupGone(i) {
			// emitted oldest first: the k-th expired group is the k-th compose call
			if expired < ncomp {
				verifAssert(sameEvents(gLog.composes[expired].args, g.events), "C17.process.oldest-first")
			}
			expired++
		}
		if !isExp && i != hit {
			s.groupStill(i, nil, "C11.process.unexpired-other-group")
		}
	}
	// --- the incoming event
	if err == nil {
		if flush {
			verifAssert(out != nil, "C11.process.flush-forwards-composite")
			// the last compose call got this id's events followed by the flush event
			verifAssert(ncomp >= 1, "C11.process.flush-composed")
			if ncomp >= 1 {
				last := gLog.composes[ncomp-1]
				var want []*eventlogger.Event
				if hit >= 0 && !(s.now > s.grp[hit].exp) {
					want = append(want, s.grp[hit].events...)
				}
				want = append(want, ev)
				verifAssert(sameEvents(last.args, want), "C11.process.flush-composes-whole-group-in-order")
				if out != nil {
					verifAssert(out.Type == last.t && verifSame(out.Payload, last.payload), "C11.process.flush-carries-composite")
				}
			}
			_, still := s.w.gated[id]
			verifAssert(!still, "C11.process.flush-closes-group")
			verifReach("C11.process.flush")
		} else {
			verifAssert(out == nil, "C11.process.withheld")
			ge, ok := s.w.gated[id]
			verifAssert(ok, "C11.process.accepted-event-gated")
			if ok {
				var want []*eventlogger.Event
				if hit >= 0 && !(s.now > s.grp[hit].exp) {
					want = append(want, s.grp[hit].events...)
					verifAssert(ge == s.grp[hit].ge, "C11.process.appended-to-open-group")
				} else {
					verifAssert(ge.exp.Equal(time.Unix(0, int64(s.now)).Add(s.w.Expiration)), "C11.process.new-group-expiry")
					verifAssert(s.w.orderedGated.Back() == ge.element, "C11.process.new-group-last")
				}
				want = append(want, ev)
				verifAssert(sameEvents(ge.events, want), "C11.process.appended-last")
			}
			verifReach("C11.process.gated")
		}
	} else {
		verifAssert(out == nil, "C11.process.error-forwards-nothing")
		verifReach("C11.process.error")
	}
	// sends: only non-Gateable composites, each compose result sent at most once
	for _, sc := range gLog.sends {
		_, isG := sc.payload.(Gateable)
		verifAssert(!isG, "C11.process.no-gateable-composite-sent")
		n := 0
		for _, c := range gLog.composes {
			if c.err == nil && verifSame(c.payload, sc.payload) && c.t == sc.t {
				n++
			}
		}
		verifAssert(n == 1, "C11.process.send-is-a-compose-result")
	}
	if !s.broker {
		verifAssert(len(gLog.sends) == 0, "C11.process.no-broker-no-send")
	}
	s.checkInv("C11.process")
}

func H_C11_Process_passthrough() {
	G, E := verifParam("G"), verifParam("E")
	s := symFilter(G, E)
	ctx := context.Background()
	switch symLen(0, 2) {
	case 0: // non-Gateable payload passes through untouched
		ev := &eventlogger.Event{Type: "plain", Payload: &gPlain{}}
		out, err := s.w.Process(ctx, ev)
		verifAssert(err == nil && out == ev, "C11.passthrough.same-event")
		verifReach("C11.passthrough.plain")
	case 1: // missing id is rejected
		ev := &eventlogger.Event{Type: "gated", Payload: &gPayload{id: "", flush: nondetBool()}}
		out, err := s.w.Process(ctx, ev)
		verifAssert(err != nil && out == nil, "C11.passthrough.empty-id-rejected")
		verifReach("C11.passthrough.noid")
	case 2:
		out, err := s.w.Process(ctx, nil)
		verifAssert(err != nil && out == nil, "C11.passthrough.nil-event-rejected")
	}
	for i := 0; i < s.n; i++ {
		s.groupStill(i, nil, "C11.passthrough.state-untouched")
	}
	verifAssert(len(gLog.composes) == 0 && len(gLog.sends) == 0, "C11.passthrough.no-emission")
	s.checkInv("C11.passthrough")
}

// ---- C11 / C17: FlushAll and Close ---------------------------------------------------------------

func H_C17_FlushAll() {
	G, E := verifParam("G"), verifParam("E")
	s := symFilter(G, E)
	if nondetBool() {
		// the filter may have been flushed / closed before (while it held nothing) and been used again since: whatever
		// such a call leaves behind besides the gated groups must not change what the next one does
		g, l := s.w.gated, s.w.orderedGated
		s.w.gated, s.w.orderedGated = nil, nil
		if nondetBool() {
			s.w.Close(context.Background())
		} else {
			s.w.FlushAll(context.Background())
		}
		s.w.gated, s.w.orderedGated = g, l
		gLog.composes, gLog.sends = nil, nil
		verifReach("C17.flushall.after-earlier-close")
	}
	var err error
	// whatever is found by ranging over a built-in map is found in no particular order
	verifMapOrder(true)
	if nondetBool() {
		err = s.w.FlushAll(gMaybeDoneCtx())
	} else {
		err = s.w.Close(gMaybeDoneCtx())
	}
	verifMapOrder(false)
	for i := 0; i < s.n; i++ {
		verifAssert(s.composedCount(s.grp[i].events) <= 1, "C11.flushall.group-composed-at-most-once")
	}
	if err == nil {
		verifAssert(len(s.w.gated) == 0, "C17.flushall.nothing-remains-gated")
		if s.w.orderedGated != nil {
			verifAssert(s.w.orderedGated.Len() == 0, "C17.flushall.list-empty")
		}
		if s.broker {
			verifAssert(len(gLog.composes) == s.n, "C17.flushall.every-group-emitted")
			for i := 0; i < s.n; i++ {
				if i < len(gLog.composes) {
					verifAssert(sameEvents(gLog.composes[i].args, s.grp[i].events), "C17.flushall.oldest-first-whole-groups")
				}
			}
			verifAssert(len(gLog.sends) == s.n, "C17.flushall.every-composite-sent-once")
			for i, sc := range gLog.sends {
				if i < len(gLog.composes) {
					verifAssert(sc.t == gLog.composes[i].t && verifSame(sc.payload, gLog.composes[i].payload), "C17.flushall.sends-the-composite")
				}
			}
		} else {
			verifAssert(len(gLog.sends) == 0, "C11.flushall.no-broker-no-send")
		}
		verifReach("C17.flushall.ok")
	} else {
		// a failing emission discards only the failing group; the others are neither lost nor duplicated
		for i := 0; i < s.n; i++ {
			if !s.groupGone(i) {
				s.groupStill(i, nil, "C11.flushall.error.remaining-group")
			} else {
				verifAssert(s.composedCount(s.grp[i].events) == 1, "C11.flushall.error.removed-means-composed")
			}
		}
		verifReach("C17.flushall.error")
	}
	for _, sc := range gLog.sends {
		_, isG := sc.payload.(Gateable)
		verifAssert(!isG, "C11.flushall.no-gateable-composite-sent")
	}
	s.checkInv("C17.flushall")
}
