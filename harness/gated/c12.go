package __PKG__

import (
	"context"
	"time"

	"github.com/hashicorp/eventlogger"
)

type gFmt struct{}

func (n *gFmt) Process(ctx context.Context, e *eventlogger.Event) (*eventlogger.Event, error) {
	return e, nil
}
func (n *gFmt) Reopen() error                 { return nil }
func (n *gFmt) Type() eventlogger.NodeType    { return eventlogger.NodeTypeFormatter }

type gSink struct{ got int }

func (n *gSink) Process(ctx context.Context, e *eventlogger.Event) (*eventlogger.Event, error) {
	n.got++
	return nil, nil
}
func (n *gSink) Reopen() error              { return nil }
func (n *gSink) Type() eventlogger.NodeType { return eventlogger.NodeTypeSink }

type gCtx struct{}

func (c *gCtx) Deadline() (time.Time, bool) { return time.Time{}, false }
func (c *gCtx) Done() <-chan struct{}        { return nil }
func (c *gCtx) Err() error                   { return nil }
func (c *gCtx) Value(key any) any            { return nil }

// The library's gated filter wired to the very broker it is registered with, holding 0..G pending groups:
// Send (expiry flush from Process), RemovePipelineAndNodes / RemoveNode (Close flushes through the broker),
// Reopen and the other calls must all return.
func H_C12_gated_same_broker() {
	G := verifParam("G")
	b, _ := eventlogger.NewBroker()
	ctx := &gCtx{}
	now := 1000
	w := &Filter{Broker: b, Expiration: time.Duration(10), NowFunc: func() time.Time { return time.Unix(0, int64(now)) }}
	sink := &gSink{}
	b.RegisterNode("gate", w)
	b.RegisterNode("fmt", &gFmt{})
	b.RegisterNode("sink", sink)
	b.RegisterPipeline(eventlogger.Pipeline{PipelineID: "p", EventType: "t", NodeIDs: []eventlogger.NodeID{"gate", "fmt", "sink"}})
	b.RegisterPipeline(eventlogger.Pipeline{PipelineID: "c", EventType: "composite", NodeIDs: []eventlogger.NodeID{"fmt", "sink"}})
	n := symLen(0, G)
	ids := [3]string{"a", "b", "c"}
	for i := 0; i < n; i++ {
		b.Send(ctx, "t", &cPayload{id: ids[i]})
	}
	if nondetBool() {
		now = 2000 // everything pending has expired
	}
	switch symLen(0, 5) {
	case 0:
		b.Send(ctx, "t", &cPayload{id: "z", flush: nondetBool()})
	case 1:
		ok, _ := b.RemovePipelineAndNodes(ctx, "t", "p")
		verifAssert(ok, "C12.gated.removed")
	case 2:
		b.RemovePipeline("t", "p")
		b.RemoveNode(ctx, "gate")
	case 3:
		b.Reopen(ctx)
	case 4:
		w.FlushAll(ctx)
	case 5:
		// the filter stays registered but unused, then its id is registered again
		b.RemovePipeline("t", "p")
		b.RegisterNode("gate", &gFmt{})
	}
	verifAssert(verifNoLocksHeld(), "C12.gated.locks-released")
	b.SetSuccessThreshold("t", 0)
	verifReach("C12.gated.end")
}

type cPayload struct {
	id    string
	flush bool
}

func (p *cPayload) GetID() string    { return p.id }
func (p *cPayload) FlushEvent() bool { return p.flush }
func (p *cPayload) ComposeFrom(events []*eventlogger.Event) (eventlogger.EventType, interface{}, error) {
	return "composite", &gPlain{n: len(events)}, nil
}
