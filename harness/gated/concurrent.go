package __PKG__

import (
	"context"

	"github.com/hashicorp/eventlogger"
)

func (s *gState) occurrences(ev *eventlogger.Event) int {
	n := 0
	if s.w.gated != nil {
		for _, ge := range s.w.gated {
			for _, x := range ge.events {
				if x == ev {
					n++
				}
			}
		}
	}
	for _, c := range gLog.composes {
		for _, x := range c.args {
			if x == ev {
				n++
			}
		}
	}
	return n
}

// two concurrent senders on one filter: every context switch at a lock operation is a solver-visible choice.
// Each accepted event ends up in exactly one place: still gated in one group, or handed to exactly one composition.
func H_C11_concurrent() {
	G, E := verifParam("GC"), verifParam("EC")
	s := symFilter(G, E)
	idA, idB := nondetString(), nondetString()
	verifAssume(idA != "")
	verifAssume(idB != "")
	evA := &eventlogger.Event{Type: "gated", Payload: &gPayload{id: idA, flush: nondetBool()}}
	evB := &eventlogger.Event{Type: "gated", Payload: &gPayload{id: idB, flush: nondetBool()}}
	var errA, errB error
	ctx := context.Background()
	verifInterleave(true)
	verifGo(func() { _, errA = s.w.Process(ctx, evA) })
	verifGo(func() { _, errB = s.w.Process(ctx, evB) })
	verifJoin()
	verifInterleave(false)
	if errA == nil {
		verifAssert(s.occurrences(evA) == 1, "C11.concurrent.accepted-event-exactly-once")
	} else {
		verifAssert(s.occurrences(evA) <= 1, "C11.concurrent.rejected-event-not-duplicated")
	}
	if errB == nil {
		verifAssert(s.occurrences(evB) == 1, "C11.concurrent.accepted-event-exactly-once")
	} else {
		verifAssert(s.occurrences(evB) <= 1, "C11.concurrent.rejected-event-not-duplicated")
	}
	for i := 0; i < s.n; i++ {
		for _, x := range s.grp[i].events {
			verifAssert(s.occurrences(x) == 1, "C11.concurrent.gated-event-exactly-once")
		}
	}
	s.checkInv("C11.concurrent")
	verifReach("C11.concurrent.end")
}
