package __PKG__

import (
	"context"

	"github.com/hashicorp/eventlogger"
)

type wErr struct{ tag string }

func (e *wErr) Error() string { return e.tag }

type wWriter struct {
	calls    int
	arg      string
	n        int
	err      error
	lockHeld int
}

func (w *wWriter) Write(p []byte) (int, error) {
	w.calls++
	w.arg = string(p)
	w.lockHeld = verifHeldExclusive()
	// nothing, everything or some of it (the two ends chosen by kind, so that a native replay hits them whatever the
	// length of its text)
	switch symLen(0, 2) {
	case 0:
		w.n = 0
	case 1:
		w.n = len(p)
	default:
		w.n = nondetInt()
		verifAssume(w.n > 0)
		verifAssume(w.n < len(p))
	}
	if nondetBool() {
		w.err = &wErr{"write"}
	}
	return w.n, w.err
}

func symLen(lo, hi int) int {
	n := nondetInt()
	verifAssume(n >= lo)
	verifAssume(n <= hi)
	c := lo
	for c < n {
		c++
	}
	return c
}

func H_C13_writer() {
	s := &Sink{Format: nondetString()}
	w := &wWriter{}
	hasW := nondetBool()
	if hasW {
		s.Writer = w
	}
	var e *eventlogger.Event
	hasE := nondetBool()
	var ks, vs [3]string
	n := 0
	if hasE {
		e = &eventlogger.Event{Type: "t", Formatted: map[string][]byte{}}
		n = symLen(0, verifParam("F"))
		for i := 0; i < n; i++ {
			ks[i], vs[i] = nondetString(), nondetText()
			for j := 0; j < i; j++ {
				verifAssume(ks[i] != ks[j])
			}
			e.Formatted[ks[i]] = []byte(vs[i])
		}
	}
	want := s.Format
	if want == "" {
		want = eventlogger.JSONFormat
	}
	have := false
	wantBytes := ""
	for i := 0; i < n; i++ {
		if ks[i] == want {
			have = true
			wantBytes = vs[i]
		}
	}
	out, err := s.Process(context.Background(), e)
	verifAssert(out == nil, "C13.writer.sink-forwards-nothing")
	if !hasW || !hasE || !have {
		verifAssert(err != nil, "C13.writer.missing-input-or-format-is-error")
		verifAssert(w.calls == 0, "C13.writer.no-write-without-bytes")
		verifReach("C13.writer.rejected")
		return
	}
	if len(wantBytes) == 0 {
		// nothing to write: bytes.Reader.WriteTo does not call Write for an empty value
		verifAssert(w.calls == 0 && err == nil, "C13.writer.empty-value")
		return
	}
	verifAssert(w.calls == 1, "C13.writer.exactly-one-write")
	verifAssert(w.arg == wantBytes, "C13.writer.writes-configured-format-bytes")
	verifAssert(w.lockHeld >= 1, "C13.writer.write-under-exclusive-sink-lock")
	if err == nil {
		verifAssert(w.err == nil && w.n == len(wantBytes), "C13.writer.success-only-after-full-write")
		verifReach("C13.writer.ok")
	} else {
		verifAssert(w.err != nil || w.n < len(wantBytes), "C13.writer.error-only-on-failure")
		verifReach("C13.writer.failed")
	}
}
