package __PKG__

import (
	"context"
	"time"

	"github.com/hashicorp/eventlogger"
)

// a ChannelSink shared by pipelines / concurrent senders: Process || Process / Reopen / Type touch no unprotected state
// of the sink (the channel itself is the only thing they share)
func H_C19_channel_pairs() {
	ch := make(chan *eventlogger.Event, 4)
	s, err := NewChannelSink(ch, time.Duration(1000000))
	verifAssume(err == nil && s != nil)
	e1 := &eventlogger.Event{Type: "t"}
	e2 := e1
	if nondetBool() {
		e2 = &eventlogger.Event{Type: "t"}
	}
	ctx := context.Background()
	k := symLen(0, 2)
	verifPar(func() { s.Process(ctx, e1) }, func() {
		switch k {
		case 0:
			s.Process(ctx, e2)
		case 1:
			s.Reopen()
		case 2:
			s.Type()
		}
	})
	verifReach("C19.channel.end")
}
