package __PKG__

import (
	"context"

	"github.com/hashicorp/eventlogger"
)

// an ordinary, not internally synchronised writer (like bytes.Buffer): concurrent Writes conflict on its state
type qWriter struct{ total int }

func (w *qWriter) Write(p []byte) (int, error) { w.total += len(p); return len(p), nil }

func H_C19_writer_pairs() {
	s := &Sink{Writer: &qWriter{}}
	e1 := &eventlogger.Event{Type: "t", Formatted: map[string][]byte{"json": []byte(nondetString())}}
	e2 := e1
	if nondetBool() {
		e2 = &eventlogger.Event{Type: "t", Formatted: map[string][]byte{"json": []byte(nondetString())}}
	}
	ctx := context.Background()
	k := symLen(0, 1)
	verifPar(func() { s.Process(ctx, e1) }, func() {
		if k == 0 {
			s.Process(ctx, e2)
		} else {
			s.Reopen()
		}
	})
	verifReach("C19.writer.end")
}
