package __PKG__

import (
	"context"
	"time"

	"github.com/hashicorp/eventlogger"
)


type chCtx struct {
	done      chan struct{}
	cancelled bool
	deadline  bool // the context has a deadline of its own, far in the future
}

func (c *chCtx) Deadline() (time.Time, bool) {
	if c.deadline {
		return time.Now().Add(24 * time.Hour), true
	}
	return time.Time{}, false
}
func (c *chCtx) Done() <-chan struct{}        { return c.done }
func (c *chCtx) Err() error {
	if c.cancelled {
		return context.Canceled
	}
	return nil
}
func (c *chCtx) Value(key any) any { return nil }

func symLen(lo, hi int) int {
	n := nondetInt()
	verifAssume(n >= lo)
	verifAssume(n <= hi)
	c := lo
	for c < n {
		c++
	}
	return c
}

// ChannelSink.Process against every environment: channel unbuffered / buffered with room / full; a receiver that is
// already waiting, arrives late or never; context done or not; the timeout already elapsed or elapsing later.
// Which ready select arm is taken is a solver-visible choice.
func H_C13_channel() {
	var ch chan *eventlogger.Event
	switch symLen(0, 2) {
	case 0:
		ch = make(chan *eventlogger.Event)
	case 1:
		ch = make(chan *eventlogger.Event, 1)
	case 2:
		ch = make(chan *eventlogger.Event, 1)
		ch <- &eventlogger.Event{Type: "older"}
	}
	d := time.Duration(nondetInt())
	s, err := NewChannelSink(ch, d)
	if d <= 0 {
		verifAssert(err != nil && s == nil, "C13.channel.bad-duration-rejected")
		return
	}
	verifAssert(err == nil && s != nil, "C13.channel.constructed")
	if s == nil {
		return
	}
	// the context: never done, done before the call, or becoming done while Process is waiting; with or without a (far)
	// deadline of its own — the sink's timeout applies all the same
	ctx := &chCtx{deadline: nondetBool()}
	if ctx.deadline {
		ctx.done = make(chan struct{})
	}
	willBeDone := false
	switch symLen(0, 2) {
	case 1:
		willBeDone = true
		ctx.done = make(chan struct{})
		ctx.cancelled = true
		close(ctx.done)
	case 2:
		willBeDone = true
		ctx.done = make(chan struct{})
		go func() {
			verifYield()
			ctx.cancelled = true
			close(ctx.done)
		}()
	}
	var got *eventlogger.Event
	received := 0
	if nondetBool() {
		go func() {
			for x := range ch {
				if x.Type == "older" {
					continue
				}
				got = x
				received++
				return
			}
		}()
	}
	// the sink's timeout elapses at some point of the call, or is far away (an hour or more: it plays no part)
	// (only with a context that is or becomes done: otherwise waiting for the timeout is the specified behaviour)
	if !willBeDone || nondetBool() {
		go func() { verifFireTimer() }()
	} else {
		verifAssume(d >= 3600000000000)
	}
	e := &eventlogger.Event{Type: "t"}
	out, perr := s.Process(ctx, e)
	verifYield()
	verifAssert(out == nil, "C13.channel.sink-forwards-nothing")
	// where did the event go?
	inBuf := 0
	for len(ch) > 0 {
		x := <-ch
		if x == e {
			inBuf++
		}
	}
	close(ch) // lets the harness's own receiver goroutine finish
	verifYield()
	handed := received + inBuf
	if received == 1 {
		verifAssert(got == e, "C13.channel.hands-over-the-very-event")
	}
	verifAssert(handed <= 1, "C13.channel.at-most-once")
	verifAssert((perr == nil) == (handed == 1), "C13.channel.success-iff-handed-over")
	if perr == nil {
		verifReach("C13.channel.ok")
	} else {
		verifReach("C13.channel.error")
	}
}

// two overlapping Process calls on one sink whose channel stays full: each of them gives up once its own timeout has elapsed
// (the timeout of one call is not consumed, cancelled or shared by the other)
func H_C13_channel_two_senders() {
	ch := make(chan *eventlogger.Event, 1)
	ch <- &eventlogger.Event{Type: "older"}
	d := time.Duration(nondetInt())
	verifAssume(d > 0)
	verifAssume(d <= 1000000)
	s, err := NewChannelSink(ch, d)
	verifAssume(err == nil && s != nil)
	ctx := &chCtx{}
	done := make(chan error, 2)
	go func() { _, e := s.Process(ctx, &eventlogger.Event{Type: "a"}); done <- e }()
	go func() { _, e := s.Process(ctx, &eventlogger.Event{Type: "b"}); done <- e }()
	// both are waiting by now; their timeouts elapse (twice over: a timer re-armed meanwhile elapses as well)
	verifYield()
	verifFireTimer()
	verifYield()
	verifFireTimer()
	e1 := <-done
	e2 := <-done
	verifAssert(e1 != nil && e2 != nil, "C13.channel.two-senders.both-time-out")
	verifAssert(len(ch) == 1, "C13.channel.two-senders.nothing-delivered")
	verifReach("C13.channel.two-senders.end")
}
