package __PKG__

import (
	"context"
	"encoding/base64"
	"crypto/hmac"
	"crypto/sha256"
	"io"

	wrapping "github.com/hashicorp/go-kms-wrapping/v2"
	"github.com/hashicorp/go-kms-wrapping/v2/aead"
	"google.golang.org/protobuf/proto"
)

func symLen(lo, hi int) int {
	n := nondetInt()
	verifAssume(n >= lo)
	verifAssume(n <= hi)
	c := lo
	for c < n {
		c++
	}
	return c
}

func mkWrapper(id string) *aead.Wrapper {
	w := aead.NewWrapper()
	w.SetConfig(context.Background(), wrapping.WithKeyId(id))
	w.SetAesGcmKeyBytes(verifKey(nondetString()))
	return w
}

// symBytes: nil, or a slice of 0..2 arbitrary bytes
func symBytes() []byte {
	if nondetBool() {
		return nil
	}
	b := []byte{}
	n := symLen(0, 2)
	for i := 0; i < n; i++ {
		x := nondetInt()
		verifAssume(x >= 0)
		verifAssume(x <= 255)
		b = append(b, byte(x))
	}
	return b
}

func refEncrypt(w *aead.Wrapper, data []byte) (string, bool) {
	blob, err := w.Encrypt(context.Background(), data, nil)
	if err != nil {
		return "", false
	}
	m, err := proto.Marshal(blob)
	if err != nil {
		return "", false
	}
	return "encrypted:" + base64.RawURLEncoding.EncodeToString(m), true
}

func refHmac(w *aead.Wrapper, salt, info, data []byte) string {
	r, err := NewDerivedReader(context.Background(), w, 32, salt, info)
	if err != nil {
		return "<error>"
	}
	key := make([]byte, 32)
	io.ReadFull(r, key)
	mac := hmac.New(sha256.New, key)
	mac.Write(data)
	return "hmac-sha256:" + base64.RawURLEncoding.EncodeToString(mac.Sum(nil))
}

func H_C16_encrypt() {
	ef := &Filter{}
	var fw, ow *aead.Wrapper
	if nondetBool() {
		fw = mkWrapper("filter")
		ef.Wrapper = fw
	}
	var opts []Option
	if nondetBool() {
		ow = mkWrapper("event")
		opts = append(opts, WithWrapper(ow))
	}
	var data []byte
	hasData := nondetBool()
	if hasData {
		data = []byte(nondetString())
	}
	out, err := ef.encrypt(context.Background(), data, opts...)
	if !hasData || (fw == nil && ow == nil) {
		verifAssert(err != nil && out == "", "C16.encrypt.missing-input-is-error")
		verifReach("C16.encrypt.rejected")
		return
	}
	eff := fw
	if ow != nil {
		eff = ow // the per-event wrapper takes precedence
	}
	want, ok := refEncrypt(eff, data)
	if !ok {
		verifAssert(err != nil, "C16.encrypt.wrapper-failure-is-error")
		return
	}
	verifAssert(err == nil, "C16.encrypt.ok")
	verifAssert(verifCipherEq(eff, out, want), "C16.encrypt.ciphertext-under-wrapper-in-force")
	verifReach("C16.encrypt.ok")
}

func H_C16_hmac() {
	ef := &Filter{HmacSalt: symBytes(), HmacInfo: symBytes()}
	var fw, ow *aead.Wrapper
	if nondetBool() {
		fw = mkWrapper("filter")
		ef.Wrapper = fw
	}
	var opts []Option
	var osalt, oinfo []byte
	if nondetBool() {
		ow = mkWrapper("event")
		opts = append(opts, WithWrapper(ow))
	}
	if nondetBool() {
		osalt = symBytes()
		opts = append(opts, WithSalt(osalt))
	}
	if nondetBool() {
		oinfo = symBytes()
		opts = append(opts, WithInfo(oinfo))
	}
	var data []byte
	hasData := nondetBool()
	if hasData {
		data = []byte(nondetString())
	}
	out, err := ef.hmacSha256(context.Background(), data, opts...)
	if !hasData || (fw == nil && ow == nil) {
		verifAssert(err != nil && out == "", "C16.hmac.missing-input-is-error")
		verifReach("C16.hmac.rejected")
		return
	}
	eff := fw
	if ow != nil {
		eff = ow
	}
	salt, info := ef.HmacSalt, ef.HmacInfo
	if osalt != nil {
		salt = osalt // per-event values take precedence over the filter's
	}
	if oinfo != nil {
		info = oinfo
	}
	verifAssert(err == nil, "C16.hmac.ok")
	verifAssert(out == refHmac(eff, salt, info, data), "C16.hmac.digest-under-key-salt-info-in-force")
	// equal inputs under equal keys give equal digests
	out2, _ := ef.hmacSha256(context.Background(), data, opts...)
	verifAssert(out2 == out, "C16.hmac.deterministic")
	verifReach("C16.hmac.ok")
}

type rotPayload struct {
	w    wrapping.Wrapper
	salt []byte
	info []byte
}

func (p *rotPayload) Wrapper() wrapping.Wrapper { return p.w }
func (p *rotPayload) HmacSalt() []byte          { return p.salt }
func (p *rotPayload) HmacInfo() []byte          { return p.info }

func sameBytes(a, b []byte) bool {
	if len(a) != len(b) {
		return false
	}
	for i := range a {
		if a[i] != b[i] {
			return false
		}
	}
	return true
}

// after Rotate, or after a rotation payload has been processed, later values use the new material
func H_C16_rotate() {
	oldW := mkWrapper("old")
	oldSalt, oldInfo := symBytes(), symBytes()
	ef := &Filter{Wrapper: oldW, HmacSalt: oldSalt, HmacInfo: oldInfo}
	// the material in force so far belongs to whoever configured it (Rotate and the struct literal keep the caller's slices)
	keepSalt, keepInfo := append([]byte(nil), oldSalt...), append([]byte(nil), oldInfo...)
	var newW *aead.Wrapper
	if nondetBool() {
		newW = mkWrapper("new")
	}
	newSalt, newInfo := symBytes(), symBytes()
	viaPayload := nondetBool()
	if viaPayload {
		p := &rotPayload{salt: newSalt, info: newInfo}
		if newW != nil {
			p.w = newW
		}
		psalt, pinfo := append([]byte(nil), newSalt...), append([]byte(nil), newInfo...)
		out, err := ef.Process(context.Background(), newEvent(p))
		verifAssert(out == nil && err == nil, "C16.rotate.payload-consumed-not-forwarded")
		// C10: the rotation payload belongs to the caller (and to every other pipeline that receives the same event)
		verifAssert(sameBytes(p.salt, psalt) && sameBytes(p.info, pinfo) && (p.salt == nil) == (newSalt == nil), "C10.rotate.payload-untouched")
	} else {
		var opts []Option
		if newW != nil {
			opts = append(opts, WithWrapper(newW))
		}
		opts = append(opts, WithSalt(newSalt), WithInfo(newInfo))
		ef.Rotate(opts...)
	}
	wantW := oldW
	if newW != nil {
		wantW = newW
	}
	wantSalt, wantInfo := oldSalt, oldInfo
	if newSalt != nil {
		wantSalt = newSalt
	}
	if newInfo != nil {
		wantInfo = newInfo
	}
	verifAssert(len(oldSalt) == len(keepSalt) && (len(oldSalt) == 0 || sameBytes(oldSalt, keepSalt)), "C16.rotate.earlier-salt-slice-not-written")
	verifAssert(len(oldInfo) == len(keepInfo) && (len(oldInfo) == 0 || sameBytes(oldInfo, keepInfo)), "C16.rotate.earlier-info-slice-not-written")
	verifAssert(verifSame(ef.Wrapper, wrapping.Wrapper(wantW)), "C16.rotate.wrapper-in-force")
	verifAssert(sameBytes(ef.HmacSalt, wantSalt), "C16.rotate.salt-in-force")
	verifAssert(sameBytes(ef.HmacInfo, wantInfo), "C16.rotate.info-in-force")
	data := []byte(nondetString())
	out, err := ef.hmacSha256(context.Background(), data)
	verifAssert(err == nil && out == refHmac(wantW, wantSalt, wantInfo, data), "C16.rotate.next-value-uses-new-material")
	if viaPayload && newSalt != nil && len(newSalt) > 0 {
		// copied, not aliased: a later change of the caller's slice must not change the filter's salt
		first := ef.HmacSalt[0]
		newSalt[0] = newSalt[0] + 1
		verifAssert(ef.HmacSalt[0] == first, "C16.rotate.payload-salt-copied-not-aliased")
	}
	verifReach("C16.rotate.end")
}

// the per-event wrapper is a deterministic function of the filter's wrapper and the event id
func H_C16_event_wrapper() {
	var base *aead.Wrapper
	if nondetBool() {
		base = mkWrapper("base")
	}
	id := nondetString()
	var bw wrapping.Wrapper
	if base != nil {
		bw = base
	}
	w1, err := NewEventWrapper(context.Background(), bw, id)
	if base == nil || id == "" {
		verifAssert(err != nil && w1 == nil, "C16.eventwrapper.missing-input-is-error")
		verifReach("C16.eventwrapper.rejected")
		return
	}
	verifAssert(err == nil && w1 != nil, "C16.eventwrapper.ok")
	w2, _ := NewEventWrapper(context.Background(), bw, id)
	a1, ok1 := w1.(*aead.Wrapper)
	a2, ok2 := w2.(*aead.Wrapper)
	verifAssert(ok1 && ok2, "C16.eventwrapper.aead")
	if ok1 && ok2 {
		k1, _ := a1.KeyBytes(context.Background())
		k2, _ := a2.KeyBytes(context.Background())
		verifAssert(string(k1) == string(k2), "C16.eventwrapper.deterministic-key")
		id1, _ := a1.KeyId(context.Background())
		id2, _ := a2.KeyId(context.Background())
		verifAssert(id1 == id2, "C16.eventwrapper.key-id")
	}
	verifReach("C16.eventwrapper.ok")
}

type hPayload struct {
	Tok string `class:"sensitive,hmac-sha256"`
}

// under concurrent rotation each individual value is protected wholly with the old or wholly with the new material
func H_C16_process_vs_rotate() {
	oldW, newW := mkWrapper("old"), mkWrapper("new")
	oldSalt, oldInfo := []byte{1}, []byte{2}
	newSalt, newInfo := []byte{3}, []byte{4}
	ef := &Filter{Wrapper: oldW, HmacSalt: oldSalt, HmacInfo: oldInfo}
	raw := nondetString()
	e := newEvent(&hPayload{Tok: raw})
	var out *hPayload
	verifInterleave(true)
	verifGo(func() {
		o, err := ef.Process(context.Background(), e)
		if err == nil && o != nil {
			out, _ = o.Payload.(*hPayload)
		}
	})
	viaPayload := nondetBool()
	verifGo(func() {
		if viaPayload {
			// the new material arrives as a rotation payload travelling through the same filter
			ef.Process(context.Background(), newEvent(&rotPayload{w: newW, salt: newSalt, info: newInfo}))
		} else {
			ef.Rotate(WithWrapper(newW), WithSalt(newSalt), WithInfo(newInfo))
		}
	})
	verifJoin()
	verifInterleave(false)
	if out != nil {
		a := refHmac(oldW, oldSalt, oldInfo, []byte(raw))
		b := refHmac(newW, newSalt, newInfo, []byte(raw))
		verifAssert(out.Tok == a || out.Tok == b, "C16.rotation.value-wholly-old-or-wholly-new")
		verifReach("C16.rotation.end")
	}
}

// a payload that asks for a per-event wrapper (EventWrapperInfo) and carries an HMAC-ed field
type evPayload struct {
	id   string
	salt []byte
	info []byte
	Tok  string `class:"sensitive,hmac-sha256"`
}

func (p *evPayload) EventId() string  { return p.id }
func (p *evPayload) HmacSalt() []byte { return p.salt }
func (p *evPayload) HmacInfo() []byte { return p.info }

// events with an event id are protected under the wrapper derived from the wrapper in force *now*: event X,
// rotation payload, event X again -> the second one uses the key derived from the new wrapper
func H_C16_event_id_across_rotation() {
	oldW, newW := mkWrapper("old"), mkWrapper("new")
	ef := &Filter{Wrapper: oldW, HmacSalt: []byte{1}, HmacInfo: []byte{2}}
	id := nondetString()
	verifAssume(id != "")
	raw := nondetString()
	ctx := context.Background()
	salt, info := []byte{7}, []byte{8}
	run := func() (string, bool) {
		o, err := ef.Process(ctx, newEvent(&evPayload{id: id, salt: salt, info: info, Tok: raw}))
		if err != nil || o == nil {
			return "", false
		}
		p, ok := o.Payload.(*evPayload)
		if !ok {
			return "", false
		}
		return p.Tok, true
	}
	expect := func(base *aead.Wrapper) (string, bool) {
		w, err := NewEventWrapper(ctx, base, id)
		if err != nil {
			return "", false
		}
		return refHmac(w.(*aead.Wrapper), salt, info, []byte(raw)), true
	}
	got1, ok1 := run()
	if want, ok := expect(oldW); ok && ok1 {
		verifAssert(got1 == want, "C16.eventid.first-event-under-wrapper-derived-from-current-key")
	}
	// rotate through a rotation payload, or through Rotate
	if nondetBool() {
		ef.Process(ctx, newEvent(&rotPayload{w: newW}))
	} else {
		ef.Rotate(WithWrapper(newW))
	}
	got2, ok2 := run()
	if want, ok := expect(newW); ok && ok2 {
		verifAssert(got2 == want, "C16.eventid.event-after-rotation-under-wrapper-derived-from-new-key")
		verifReach("C16.eventid.end")
	}
}
