package __PKG__

import (
	wrapping "github.com/hashicorp/go-kms-wrapping/v2"
	"github.com/hashicorp/go-kms-wrapping/v2/aead"
)

// verifKey: key material for a wrapper (natively stretched to 32 bytes); verifCipherEq: two "encrypted:" values carry
// the same plaintext under w (natively by decrypting, because AES-GCM nonces are random; symbolically term equality)
func verifKey(s string) []byte
func verifCipherEq(w *aead.Wrapper, a, b string) bool

// verifFaulty: the wrapper handed to the filter. Symbolically the wrapper itself (Encrypt may fail as a function of key and
// plaintext); natively, when the replayed run has Encrypt fail somewhere, a decorator that fails at exactly those calls
func verifFaulty(w *aead.Wrapper) wrapping.Wrapper { return w }
