package __PKG__

import "github.com/hashicorp/go-kms-wrapping/v2/aead"

// verifKey: key material for a wrapper (natively stretched to 32 bytes); verifCipherEq: two "encrypted:" values carry
// the same plaintext under w (natively by decrypting, because AES-GCM nonces are random; symbolically term equality)
func verifKey(s string) []byte
func verifCipherEq(w *aead.Wrapper, a, b string) bool
