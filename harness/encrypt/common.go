package __PKG__

import "github.com/hashicorp/eventlogger"

func newEvent(payload interface{}) *eventlogger.Event {
	return &eventlogger.Event{Type: "t", Formatted: map[string][]byte{}, Payload: payload}
}
