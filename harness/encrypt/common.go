package __PKG__

import "github.com/hashicorp/eventlogger"

func newEvent(payload interface{}) *eventlogger.Event {
	// the event may have been formatted already (an earlier node, a sibling pipeline): that entry belongs to the original
	return &eventlogger.Event{Type: "t", Formatted: map[string][]byte{"earlier": []byte("doc")}, Payload: payload}
}

// originalFormatKept: Process leaves the caller's format table alone
func originalFormatKept(e *eventlogger.Event, tag string) {
	v, ok := e.Format("earlier")
	verifAssert(ok && string(v) == "doc", tag+".original-format-table-untouched")
}
