package __PKG__

import (
	"context"
)

// encrypt.Filter shared by concurrent senders / rotated concurrently, and the same *Event handled by another pipeline
func H_C19_encrypt_pairs() {
	w := mkWrapper("w")
	ef := &Filter{Wrapper: w, HmacSalt: []byte{1}, HmacInfo: []byte{2}}
	e1 := newEvent(&pLeaf{Sens: nondetString(), Sec: nondetString(), SecH: nondetString()})
	e2 := e1
	if nondetBool() {
		e2 = newEvent(&pLeaf{Sens: nondetString()})
	}
	ctx := context.Background()
	k := symLen(0, 4)
	verifNoteInt("other", k)
	verifPar(func() {
		out, _ := ef.Process(ctx, e1)
		if out != nil {
			// the next node of this pipeline formats the forwarded copy
			out.FormattedAs("json", []byte("y"))
		}
	}, func() {
		switch k {
		case 0:
			ef.Process(ctx, e2)
		case 1:
			ef.Rotate(WithWrapper(mkWrapper("n")), WithSalt([]byte{3}), WithInfo([]byte{4}))
		case 2:
			// another pipeline's formatter works on the same event
			e1.FormattedAs("json", []byte("x"))
		case 3:
			e1.Format("json")
		case 4:
			// a rotation payload travelling through the shared filter while another event is being filtered
			ef.Process(ctx, newEvent(&rotPayload{w: mkWrapper("p"), salt: []byte{5}, info: []byte{6}}))
		}
	})
	verifReach("C19.encrypt.end")
}
