package __PKG__

import (
	"bytes"
	"context"
	"crypto/sha256"
	"encoding/base64"
	"strings"

	wrapping "github.com/hashicorp/go-kms-wrapping/v2"
	"github.com/hashicorp/go-kms-wrapping/v2/aead"
	"google.golang.org/protobuf/proto"
)

func verifKey(s string) []byte {
	h := sha256.Sum256([]byte(s))
	return h[:]
}

func verifDecrypt(w *aead.Wrapper, v string) ([]byte, bool) {
	if !strings.HasPrefix(v, "encrypted:") {
		return nil, false
	}
	raw, err := base64.RawURLEncoding.DecodeString(strings.TrimPrefix(v, "encrypted:"))
	if err != nil {
		return nil, false
	}
	var blob wrapping.BlobInfo
	if err := proto.Unmarshal(raw, &blob); err != nil {
		return nil, false
	}
	pt, err := w.Decrypt(context.Background(), &blob, nil)
	return pt, err == nil
}

func verifCipherEq(w *aead.Wrapper, a, b string) bool {
	pa, ok1 := verifDecrypt(w, a)
	pb, ok2 := verifDecrypt(w, b)
	return ok1 && ok2 && bytes.Equal(pa, pb)
}

type verifFaultyWrapper struct{ *aead.Wrapper }

func (w *verifFaultyWrapper) Encrypt(ctx context.Context, pt []byte, opt ...wrapping.Option) (*wrapping.BlobInfo, error) {
	if verifFailsOn("Wrapper.Encrypt fails", string(pt)) {
		return nil, &verifInjected{}
	}
	return w.Wrapper.Encrypt(ctx, pt, opt...)
}

type verifInjected struct{}

func (e *verifInjected) Error() string { return "injected encrypt failure" }

func verifFaulty(w *aead.Wrapper) wrapping.Wrapper {
	if w != nil && verifHasExtFail("Wrapper.Encrypt fails") {
		return &verifFaultyWrapper{w}
	}
	return w
}
