package __PKG__

import (
	"context"
	"reflect"

	"github.com/hashicorp/eventlogger"
	"github.com/hashicorp/go-kms-wrapping/v2/aead"
	"google.golang.org/protobuf/types/known/wrapperspb"
)

// ---- payload shape catalogue (concrete shapes, symbolic contents) -----------------------------------------------

type pLeaf struct {
	Pub   string `class:"public"`
	Sens  string `class:"sensitive"`
	Sec   string `class:"secret"`
	SensR string `class:"sensitive,redact"`
	SecH  string `class:"secret,hmac-sha256"`
	Mixed string `class:"Secret"`          // not a known classification: treated as unclassified
	BadOp string `class:"sensitive,bogus"` // unknown operation: the class default applies
	Untag string
	Bytes []byte `class:"secret"`
	NilB  []byte `class:"sensitive"`
	Num   int
}

type pIgn struct{ Token string }

type pNested struct {
	Inner *pLeaf
	List  []string `class:"sensitive"`
	BL    [][]byte `class:"secret"`
	SPtr  *string  `class:"secret"`
	M     map[string]interface{}
	Val   pLeaf
}

// ---- independent specification ------------------------------------------------------------------------------------

type ovr struct {
	has [3]bool // public, sensitive, secret
	op  [3]FilterOperation
}

func symOverrides() (map[DataClassification]FilterOperation, *ovr) {
	o := &ovr{}
	classes := [3]DataClassification{PublicClassification, SensitiveClassification, SecretClassification}
	ops := [4]FilterOperation{NoOperation, RedactOperation, EncryptOperation, HmacSha256Operation}
	var m map[DataClassification]FilterOperation
	for i := 0; i < 3; i++ {
		if nondetBool() {
			if m == nil {
				m = map[DataClassification]FilterOperation{}
			}
			o.has[i] = true
			o.op[i] = ops[symLen(0, 3)]
			m[classes[i]] = o.op[i]
		}
	}
	return m, o
}

// expected operation for a value tagged (class, tagOp): "" keep, else redact / encrypt / hmac-sha256
func (o *ovr) expect(class string, tagOp FilterOperation) FilterOperation {
	idx := -1
	switch class {
	case "public":
		idx = 0
	case "sensitive":
		idx = 1
	case "secret":
		idx = 2
	}
	if idx < 0 {
		return RedactOperation // unclassified (or unknown classification): redact, nothing can turn that off
	}
	if o.has[idx] {
		if idx == 0 {
			return NoOperation // public values are never touched
		}
		return o.op[idx]
	}
	switch idx {
	case 0:
		return NoOperation
	case 1:
		if tagOp == RedactOperation || tagOp == EncryptOperation || tagOp == HmacSha256Operation {
			return tagOp
		}
		return EncryptOperation
	default:
		if tagOp == RedactOperation || tagOp == EncryptOperation || tagOp == HmacSha256Operation {
			return tagOp
		}
		return RedactOperation
	}
}

// needsWrapper mirrors the statement: a configured encrypt / hmac operation for any class requires a wrapper
func (o *ovr) needsWrapper() bool {
	eff := [3]FilterOperation{NoOperation, EncryptOperation, RedactOperation}
	for i := 0; i < 3; i++ {
		if o.has[i] {
			eff[i] = o.op[i]
		}
	}
	for i := 0; i < 3; i++ {
		if eff[i] == EncryptOperation || eff[i] == HmacSha256Operation {
			return true
		}
	}
	return false
}

func (o *ovr) allNone() bool {
	eff := [3]FilterOperation{NoOperation, EncryptOperation, RedactOperation}
	for i := 0; i < 3; i++ {
		if o.has[i] {
			eff[i] = o.op[i]
		}
	}
	return eff[0] == NoOperation && eff[1] == NoOperation && eff[2] == NoOperation
}

type cenv struct {
	ef   *Filter
	w    *aead.Wrapper
	o    *ovr
	salt []byte
	info []byte
}

// checkLeaf: `got` is what the forwarded event carries for a value whose plaintext was `raw`
func (c *cenv) checkLeaf(got, raw string, class string, tagOp FilterOperation, tag string) {
	switch c.o.expect(class, tagOp) {
	case NoOperation:
		verifAssert(got == raw, tag+".kept-unchanged")
	case RedactOperation:
		verifAssert(got == RedactedData, tag+".redacted")
	case EncryptOperation:
		want, ok := refEncrypt(c.w, []byte(raw))
		verifAssert(ok && verifCipherEq(c.w, got, want), tag+".encrypted-under-wrapper")
	case HmacSha256Operation:
		verifAssert(got == refHmac(c.w, c.salt, c.info, []byte(raw)), tag+".hmac-under-wrapper")
	}
}

func symLeaf() *pLeaf {
	return &pLeaf{Pub: nondetString(), Sens: nondetString(), Sec: nondetString(), SensR: nondetString(), SecH: nondetString(),
		Mixed: nondetString(), BadOp: nondetString(), Untag: nondetString(), Bytes: []byte(nondetString()), Num: nondetInt()}
}

func (c *cenv) checkLeafStruct(out, in *pLeaf, tag string) {
	c.checkLeaf(out.Pub, in.Pub, "public", NoOperation, tag+".public")
	c.checkLeaf(out.Sens, in.Sens, "sensitive", NoOperation, tag+".sensitive")
	c.checkLeaf(out.Sec, in.Sec, "secret", NoOperation, tag+".secret")
	c.checkLeaf(out.SensR, in.SensR, "sensitive", RedactOperation, tag+".sensitive-redact")
	c.checkLeaf(out.SecH, in.SecH, "secret", HmacSha256Operation, tag+".secret-hmac")
	c.checkLeaf(out.Mixed, in.Mixed, "Secret", NoOperation, tag+".unknown-class")
	c.checkLeaf(out.BadOp, in.BadOp, "sensitive", NoOperation, tag+".unknown-op")
	c.checkLeaf(out.Untag, in.Untag, "", NoOperation, tag+".untagged")
	c.checkLeaf(string(out.Bytes), string(in.Bytes), "secret", NoOperation, tag+".bytes")
	verifAssert(out.NilB == nil, tag+".nil-bytes-stay-nil")
	verifAssert(out.Num == in.Num, tag+".non-string-kept")
}

func symEnv() *cenv {
	c := &cenv{}
	m, o := symOverrides()
	c.o = o
	c.ef = &Filter{FilterOperationOverrides: m}
	if nondetBool() {
		c.w = mkWrapper("filter")
		c.ef.Wrapper = verifFaulty(c.w)
		c.salt, c.info = []byte{1}, []byte{2}
		c.ef.HmacSalt, c.ef.HmacInfo = c.salt, c.info
	}
	return c
}

// checkPrivateEvent: the forwarded copy shares no mutable state with the original event: what a later node of this
// pipeline stores in the copy's format table is not seen by (and does not race with) other pipelines holding the original
func checkPrivateEvent(e, out *eventlogger.Event, tag string) {
	if out == nil || out == e {
		return
	}
	verifAssert(out.Type == e.Type, tag+".event-type-kept")
	out.FormattedAs("verif-later", []byte("v"))
	_, leaked := e.Format("verif-later")
	verifAssert(!leaked, tag+".formatted-table-not-shared")
}

// C09 + C10 on a struct payload reached through a pointer
func H_C09_struct() {
	c := symEnv()
	in := symLeaf()
	snap := *in
	snapBytes := string(in.Bytes)
	e := newEvent(in)
	out, err := c.ef.Process(context.Background(), e)
	// C10: the caller's event and payload are never modified
	verifAssert(in.Pub == snap.Pub && in.Sens == snap.Sens && in.Sec == snap.Sec && in.SensR == snap.SensR && in.SecH == snap.SecH &&
		in.Mixed == snap.Mixed && in.BadOp == snap.BadOp && in.Untag == snap.Untag && string(in.Bytes) == snapBytes && in.Num == snap.Num, "C10.struct.original-untouched")
	verifAssert(verifSame(e.Payload, any(in)), "C10.struct.original-event-untouched")
	originalFormatKept(e, "C10.struct")
	if c.o.allNone() {
		verifAssert(err == nil && out == e, "C10.struct.all-none-forwards-the-same-event")
		verifReach("C10.struct.allnone")
		return
	}
	if c.w == nil && c.o.needsWrapper() {
		verifAssert(err != nil && out == nil, "C09.struct.missing-wrapper-fails-closed")
		verifReach("C09.struct.nowrapper")
		return
	}
	if err != nil {
		verifAssert(out == nil, "C09.struct.error-forwards-nothing")
		verifReach("C09.struct.error")
		return
	}
	verifAssert(out != nil && out != e, "C10.struct.forwards-a-copy")
	if out == nil {
		return
	}
	checkPrivateEvent(e, out, "C10.struct")
	op, ok := out.Payload.(*pLeaf)
	verifAssert(ok && op != in, "C10.struct.same-dynamic-type-distinct-object")
	if !ok {
		return
	}
	c.checkLeafStruct(op, &snap, "C09.struct")
	verifReach("C09.struct.ok")
}

// nested shapes: pointer to struct, []string, [][]byte, *string, untagged map, struct value
func H_C09_nested() {
	c := symEnv()
	inner := symLeaf()
	isnap := *inner
	s := nondetString()
	in := &pNested{Inner: inner, List: []string{nondetString(), nondetString()}, BL: [][]byte{[]byte(nondetString())}, SPtr: &s,
		M: map[string]interface{}{"k1": nondetString(), "k2": 7, "sub": map[string]interface{}{"k3": nondetString()}}}
	in.Val.Sec = nondetString()
	ign := &pIgn{Token: nondetString()}
	ignTok := ign.Token
	if nondetBool() {
		// an ignored type reached through a map value (the map sweep does not consult IgnoreTypes)
		c.ef.IgnoreTypes = []reflect.Type{reflect.TypeOf(&pIgn{})}
		in.M["ign"] = ign
	}
	l0, l1, b0, s0, k1, vsec := in.List[0], in.List[1], string(in.BL[0]), s, in.M["k1"].(string), in.Val.Sec
	k3 := in.M["sub"].(map[string]interface{})["k3"].(string)
	e := newEvent(in)
	out, err := c.ef.Process(context.Background(), e)
	verifAssert(in.List[0] == l0 && in.List[1] == l1 && string(in.BL[0]) == b0 && *in.SPtr == s0 && in.M["k1"].(string) == k1 &&
		in.M["sub"].(map[string]interface{})["k3"].(string) == k3 && in.Inner.Sec == isnap.Sec && in.Val.Sec == vsec && ign.Token == ignTok, "C10.nested.original-untouched")
	if c.o.allNone() || (c.w == nil && c.o.needsWrapper()) || err != nil {
		if err != nil {
			verifAssert(out == nil, "C09.nested.error-forwards-nothing")
		}
		return
	}
	checkPrivateEvent(e, out, "C10.nested")
	op, ok := out.Payload.(*pNested)
	verifAssert(ok && op != in && op.Inner != in.Inner, "C10.nested.deep-copy")
	if !ok || op.Inner == nil {
		return
	}
	c.checkLeafStruct(op.Inner, &isnap, "C09.nested.inner")
	verifAssert(len(op.List) == 2 && len(op.BL) == 1 && op.SPtr != nil && len(op.M) == len(in.M), "C10.nested.shape-preserved")
	if len(op.List) == 2 && len(op.BL) == 1 && op.SPtr != nil {
		c.checkLeaf(op.List[0], l0, "sensitive", NoOperation, "C09.nested.list")
		c.checkLeaf(op.List[1], l1, "sensitive", NoOperation, "C09.nested.list")
		c.checkLeaf(string(op.BL[0]), b0, "secret", NoOperation, "C09.nested.byteslist")
		c.checkLeaf(*op.SPtr, s0, "secret", NoOperation, "C09.nested.stringptr")
	}
	c.checkLeaf(op.Val.Sec, vsec, "secret", NoOperation, "C09.nested.struct-value")
	// untagged map: every string value is unclassified => redacted
	if v, ok := op.M["k1"].(string); ok {
		c.checkLeaf(v, k1, "", NoOperation, "C09.nested.map-value")
	} else {
		verifAssert(false, "C10.nested.map-value-type-preserved")
	}
	verifAssert(op.M["k2"] == 7, "C10.nested.map-non-string-kept")
	if sub, ok := op.M["sub"].(map[string]interface{}); ok {
		if v, ok := sub["k3"].(string); ok {
			c.checkLeaf(v, k3, "", NoOperation, "C09.nested.submap-value")
		}
	} else {
		verifAssert(false, "C10.nested.submap-preserved")
	}
	verifReach("C09.nested.ok")
}

// nil / zero payloads and rotation payloads
func H_C10_trivial() {
	c := symEnv()
	switch symLen(0, 2) {
	case 0:
		e := newEvent(nil)
		out, err := c.ef.Process(context.Background(), e)
		verifAssert(err == nil && out == e, "C10.nil-payload-forwarded-unchanged")
	case 1:
		var z *pLeaf
		e := newEvent(z)
		out, err := c.ef.Process(context.Background(), e)
		if c.o.allNone() || !(c.w == nil && c.o.needsWrapper()) {
			verifAssert(err == nil && out == e, "C10.zero-payload-forwarded-unchanged")
		}
	case 2:
		out, err := c.ef.Process(context.Background(), nil)
		verifAssert(err != nil && out == nil, "C09.nil-event-rejected")
	}
	verifReach("C10.trivial.end")
}

// tMapPayload: a Taggable map (pointer tags select which entries carry which classification)
type tMapPayload map[string]interface{}

func (t tMapPayload) Tags() ([]PointerTag, error) {
	return []PointerTag{
		{Pointer: "/token", Classification: SecretClassification, Filter: RedactOperation},
		{Pointer: "/user", Classification: SensitiveClassification, Filter: HmacSha256Operation},
		{Pointer: "/note", Classification: PublicClassification, Filter: NoOperation},
		{Pointer: "/blob", Classification: SensitiveClassification, Filter: HmacSha256Operation},
	}, nil
}

// payload kinds handled at the top level of Process: untagged map, Taggable map, []string, *string, string
func H_C09_toplevel() {
	c := symEnv()
	kind := symLen(0, 6)
	a, b := nondetString(), nondetString()
	var refs *pNested
	var e = newEvent(nil)
	switch kind {
	case 0:
		// values of an untagged map: text, a number, a list of texts, a list of byte strings
		e.Payload = map[string]interface{}{"k": a, "n": 1, "sl": []string{b}, "bl": [][]byte{[]byte(b)}}
	case 1:
		// "blob" is a byte-slice value reached through a pointer tag: what is protected is its bytes, not a rendering of them
		e.Payload = tMapPayload{"token": a, "user": b, "note": "n", "other": a, "blob": []byte(b), "sub": map[string]interface{}{"token": b, "x": a}}
	case 2:
		e.Payload = []string{a, b}
	case 3:
		s := a
		e.Payload = &s
	case 4:
		e.Payload = a
	case 5:
		// a struct passed by value (its fields are not settable through reflection)
		e.Payload = pLeaf{Sec: a, Untag: b}
	case 6:
		// a struct passed by value that holds references: the caller's map, slice and pointee must stay untouched
		refs = &pNested{Inner: &pLeaf{Sec: a}, List: []string{b}, M: map[string]interface{}{"k": a}}
		e.Payload = *refs
	}
	out, err := c.ef.Process(context.Background(), e)
	if refs != nil {
		verifAssert(refs.Inner.Sec == a && refs.List[0] == b && refs.M["k"].(string) == a, "C10.toplevel.by-value-struct-references-untouched")
	}
	originalFormatKept(e, "C10.toplevel")
	if c.o.allNone() || (c.w == nil && c.o.needsWrapper()) {
		return
	}
	if err != nil {
		verifAssert(out == nil, "C09.toplevel.error-forwards-nothing")
		return
	}
	if out == nil {
		return
	}
	checkPrivateEvent(e, out, "C10.toplevel")
	switch kind {
	case 0:
		m, ok := out.Payload.(map[string]interface{})
		verifAssert(ok, "C10.toplevel.map-type-preserved")
		if ok {
			v, _ := m["k"].(string)
			c.checkLeaf(v, a, "", NoOperation, "C09.toplevel.untagged-map-value")
			sl, _ := m["sl"].([]string)
			bl, _ := m["bl"].([][]byte)
			verifAssert(len(sl) == 1 && len(bl) == 1, "C10.toplevel.untagged-map-lists-preserved")
			if len(sl) == 1 && len(bl) == 1 {
				c.checkLeaf(sl[0], b, "", NoOperation, "C09.toplevel.untagged-map-string-list")
				c.checkLeaf(string(bl[0]), b, "", NoOperation, "C09.toplevel.untagged-map-bytes-list")
			}
		}
	case 1:
		m, ok := out.Payload.(tMapPayload)
		verifAssert(ok, "C10.toplevel.taggable-type-preserved")
		if ok {
			tok, _ := m["token"].(string)
			usr, _ := m["user"].(string)
			oth, _ := m["other"].(string)
			c.checkLeaf(tok, a, "secret", RedactOperation, "C09.toplevel.taggable.secret")
			c.checkLeaf(usr, b, "sensitive", HmacSha256Operation, "C09.toplevel.taggable.sensitive")
			verifAssert(m["note"] == "n", "C09.toplevel.taggable.public-kept")
			// a filtered entry comes back as text, an entry kept as is still holds its bytes
			blob, isStr := m["blob"].(string)
			if raw, isBytes := m["blob"].([]byte); !isStr && isBytes {
				blob = string(raw)
			}
			c.checkLeaf(blob, b, "sensitive", HmacSha256Operation, "C09.toplevel.taggable.bytes-entry")
			c.checkLeaf(oth, a, "", NoOperation, "C09.toplevel.taggable.untagged-entry")
			if sub, ok := m["sub"].(map[string]interface{}); ok {
				st, _ := sub["token"].(string)
				sx, _ := sub["x"].(string)
				c.checkLeaf(st, b, "", NoOperation, "C09.toplevel.taggable.nested-map-same-key")
				c.checkLeaf(sx, a, "", NoOperation, "C09.toplevel.taggable.nested-map-value")
			} else {
				verifAssert(false, "C10.toplevel.taggable.nested-map-preserved")
			}
		}
	case 2:
		l, ok := out.Payload.([]string)
		verifAssert(ok && len(l) == 2, "C10.toplevel.slice-preserved")
		if ok && len(l) == 2 {
			c.checkLeaf(l[0], a, "secret", NoOperation, "C09.toplevel.string-slice")
			c.checkLeaf(l[1], b, "secret", NoOperation, "C09.toplevel.string-slice")
		}
	case 3:
		p, ok := out.Payload.(*string)
		verifAssert(ok && p != nil, "C10.toplevel.stringptr-preserved")
		if ok && p != nil {
			c.checkLeaf(*p, a, "secret", NoOperation, "C09.toplevel.string-pointer")
		}
	case 4:
		// a bare non-empty string payload cannot be rewritten in place: forwarding it would leak it
		verifAssert(a == "", "C09.toplevel.bare-string-not-forwarded")
	case 6:
		p, ok := out.Payload.(pNested)
		verifAssert(ok && p.Inner != nil && p.Inner != refs.Inner && len(p.List) == 1 && len(p.M) == 1, "C10.toplevel.by-value-struct-deep-copied")
		if ok && p.Inner != nil && len(p.List) == 1 {
			c.checkLeaf(p.Inner.Sec, a, "secret", NoOperation, "C09.toplevel.by-value-struct.inner")
			c.checkLeaf(p.List[0], b, "sensitive", NoOperation, "C09.toplevel.by-value-struct.list")
			v, _ := p.M["k"].(string)
			c.checkLeaf(v, a, "", NoOperation, "C09.toplevel.by-value-struct.map")
		}
	case 5:
		if a == "" && b == "" {
			// the zero value of the struct: a zero payload is forwarded unchanged (C10)
			verifAssert(out == e, "C10.toplevel.zero-struct-forwarded-unchanged")
			return
		}
		p, ok := out.Payload.(pLeaf)
		verifAssert(ok, "C10.toplevel.struct-value-type-preserved")
		if ok {
			c.checkLeaf(p.Sec, a, "secret", NoOperation, "C09.toplevel.struct-by-value.secret")
			c.checkLeaf(p.Untag, b, "", NoOperation, "C09.toplevel.struct-by-value.untagged")
		}
	}
	verifReach("C09.toplevel.ok")
}

// a struct value as the very first field: it has the address of the enclosing struct (any bookkeeping keyed by address
// alone confuses the two); also reached through a slice of struct values, whose first element shares the array's address
type pHead struct {
	Sec  string `class:"secret"`
	Sens string `class:"sensitive"`
}

type pFirst struct {
	Head pHead
	Tail string `class:"secret"`
	Arr  []pHead
}

func H_C09_first_field() {
	c := symEnv()
	in := &pFirst{Head: pHead{Sec: nondetString(), Sens: nondetString()}, Tail: nondetString(), Arr: []pHead{{Sec: nondetString()}, {Sec: nondetString()}}}
	snap := *in
	a0, a1 := in.Arr[0].Sec, in.Arr[1].Sec
	e := newEvent(in)
	out, err := c.ef.Process(context.Background(), e)
	verifAssert(in.Head == snap.Head && in.Tail == snap.Tail && in.Arr[0].Sec == a0 && in.Arr[1].Sec == a1, "C10.first-field.original-untouched")
	if c.o.allNone() || (c.w == nil && c.o.needsWrapper()) {
		return
	}
	if err != nil {
		verifAssert(out == nil, "C09.first-field.error-forwards-nothing")
		return
	}
	if out == nil {
		return
	}
	op, ok := out.Payload.(*pFirst)
	verifAssert(ok && op != in, "C10.first-field.same-dynamic-type-distinct-object")
	if !ok {
		return
	}
	c.checkLeaf(op.Head.Sec, snap.Head.Sec, "secret", NoOperation, "C09.first-field.head.secret")
	c.checkLeaf(op.Head.Sens, snap.Head.Sens, "sensitive", NoOperation, "C09.first-field.head.sensitive")
	c.checkLeaf(op.Tail, snap.Tail, "secret", NoOperation, "C09.first-field.tail")
	verifAssert(len(op.Arr) == 2, "C10.first-field.slice-length-kept")
	if len(op.Arr) == 2 {
		c.checkLeaf(op.Arr[0].Sec, a0, "secret", NoOperation, "C09.first-field.arr0.secret")
		c.checkLeaf(op.Arr[1].Sec, a1, "secret", NoOperation, "C09.first-field.arr1.secret")
	}
	verifReach("C09.first-field.ok")
}

// a Taggable whose tags are faulty: Tags() fails, a pointer names an entry that does not exist (skipped, the rest still
// applies), a pointer is malformed (the whole event is refused)
type tFaulty map[string]interface{}

var tFaultyMode int

type tFaultErr struct{}

func (e *tFaultErr) Error() string { return "tags" }

func (t tFaulty) Tags() ([]PointerTag, error) {
	switch tFaultyMode {
	case 0:
		return nil, &tFaultErr{}
	case 1:
		return []PointerTag{
			{Pointer: "/missing", Classification: SecretClassification, Filter: RedactOperation},
			{Pointer: "/token", Classification: SecretClassification, Filter: RedactOperation},
		}, nil
	case 3:
		// a pointer that walks through a value that is not a container
		return []PointerTag{{Pointer: "/other/inner", Classification: SecretClassification, Filter: RedactOperation}}, nil
	}
	return []PointerTag{{Pointer: "token", Classification: SecretClassification, Filter: RedactOperation}}, nil
}

func H_C09_taggable_faults() {
	c := symEnv()
	tFaultyMode = symLen(0, 3)
	verifNoteInt("mode", tFaultyMode)
	a, b := nondetString(), nondetString()
	in := tFaulty{"token": a, "other": b}
	e := newEvent(in)
	out, err := c.ef.Process(context.Background(), e)
	verifAssert(in["token"].(string) == a && in["other"].(string) == b && len(in) == 2, "C10.taggable-faults.original-untouched")
	if c.o.allNone() {
		return
	}
	if tFaultyMode != 1 {
		verifAssert(err != nil && out == nil, "C09.taggable-faults.bad-tags-fail-closed")
		verifReach("C09.taggable-faults.refused")
		return
	}
	if c.w == nil && c.o.needsWrapper() {
		return
	}
	if err != nil {
		verifAssert(out == nil, "C09.taggable-faults.error-forwards-nothing")
		return
	}
	if out == nil {
		return
	}
	m, ok := out.Payload.(tFaulty)
	verifAssert(ok && len(m) == 2, "C10.taggable-faults.type-and-keys-preserved")
	if ok {
		tok, _ := m["token"].(string)
		oth, _ := m["other"].(string)
		c.checkLeaf(tok, a, "secret", RedactOperation, "C09.taggable-faults.tagged-entry-after-a-missing-one")
		c.checkLeaf(oth, b, "", NoOperation, "C09.taggable-faults.untagged-entry")
		verifReach("C09.taggable-faults.ok")
	}
}

// protobuf wrapper values as fields (pointers to wrapperspb.StringValue / BytesValue): their Value is protected as the field's
// tag says, in the copy only
type pWrapVals struct {
	S *wrapperspb.StringValue `class:"sensitive"`
	B *wrapperspb.BytesValue  `class:"secret"`
	P *wrapperspb.StringValue `class:"public"`
}

func H_C09_wrapper_values() {
	c := symEnv()
	a, b, p := nondetString(), nondetString(), nondetString()
	in := &pWrapVals{S: wrapperspb.String(a), B: wrapperspb.Bytes([]byte(b)), P: wrapperspb.String(p)}
	e := newEvent(in)
	out, err := c.ef.Process(context.Background(), e)
	verifAssert(in.S.Value == a && string(in.B.Value) == b && in.P.Value == p, "C10.wrapper-values.original-untouched")
	if c.o.allNone() || (c.w == nil && c.o.needsWrapper()) {
		return
	}
	if err != nil {
		verifAssert(out == nil, "C09.wrapper-values.error-forwards-nothing")
		return
	}
	if out == nil {
		return
	}
	op, ok := out.Payload.(*pWrapVals)
	verifAssert(ok && op != in && op.S != in.S && op.B != in.B, "C10.wrapper-values.deep-copy")
	if !ok || op.S == nil || op.B == nil || op.P == nil {
		return
	}
	c.checkLeaf(op.S.Value, a, "sensitive", NoOperation, "C09.wrapper-values.string")
	c.checkLeaf(string(op.B.Value), b, "secret", NoOperation, "C09.wrapper-values.bytes")
	c.checkLeaf(op.P.Value, p, "public", NoOperation, "C09.wrapper-values.public")
	verifReach("C09.wrapper-values.ok")
}

// untagged map -> (pointer to) struct -> map field (and slice of maps): the inner maps' values are unclassified text like
// any other and leave the filter redacted
type pHasMap struct {
	M  map[string]interface{}
	LM []map[string]interface{}
	T  string `class:"secret"`
}

func H_C09_map_struct_map() {
	c := symEnv()
	a, b, t := nondetString(), nondetString(), nondetString()
	inner := &pHasMap{M: map[string]interface{}{"k": a}, LM: []map[string]interface{}{{"k2": b}}, T: t}
	var payload interface{}
	byPtr := nondetBool()
	if byPtr {
		payload = map[string]interface{}{"s": inner, "plain": a}
	} else {
		payload = map[string]interface{}{"s": *inner, "plain": a}
	}
	e := newEvent(payload)
	out, err := c.ef.Process(context.Background(), e)
	verifAssert(inner.M["k"].(string) == a && inner.LM[0]["k2"].(string) == b && inner.T == t, "C10.map-struct-map.original-untouched")
	if c.o.allNone() || (c.w == nil && c.o.needsWrapper()) {
		return
	}
	if err != nil {
		verifAssert(out == nil, "C09.map-struct-map.error-forwards-nothing")
		return
	}
	if out == nil {
		return
	}
	m, ok := out.Payload.(map[string]interface{})
	verifAssert(ok, "C10.map-struct-map.type-preserved")
	if !ok {
		return
	}
	pl, _ := m["plain"].(string)
	c.checkLeaf(pl, a, "", NoOperation, "C09.map-struct-map.plain-entry")
	var got *pHasMap
	if byPtr {
		got, _ = m["s"].(*pHasMap)
	} else if v, ok := m["s"].(pHasMap); ok {
		got = &v
	}
	verifAssert(got != nil, "C10.map-struct-map.struct-entry-preserved")
	if got == nil || got.M == nil || len(got.LM) != 1 {
		return
	}
	c.checkLeaf(got.T, t, "secret", NoOperation, "C09.map-struct-map.tagged-field")
	k, _ := got.M["k"].(string)
	c.checkLeaf(k, a, "", NoOperation, "C09.map-struct-map.inner-map-value")
	k2, _ := got.LM[0]["k2"].(string)
	c.checkLeaf(k2, b, "", NoOperation, "C09.map-struct-map.inner-slice-of-maps-value")
	verifReach("C09.map-struct-map.ok")
}

// ---- tag spellings: an unrecognised classification is protected whatever else its tag says ----------------------

type pSpell struct {
	A string   `class:"Secret,bogus"`
	B string   `class:"private,"`
	C string   `class:"SENSITIVE,none"`
	D string   `class:"x,redact"`
	E []string `class:"Secret,nothing"`
	F string   `class:",encrypt"`
	G string   `class:"secret,"`
	H string   `class:"public,redact"`
}

func H_C09_tag_spellings() {
	c := symEnv()
	in := &pSpell{A: nondetString(), B: nondetString(), C: nondetString(), D: nondetString(), E: []string{nondetString()},
		F: nondetString(), G: nondetString(), H: nondetString()}
	snap := *in
	e0 := in.E[0]
	e := newEvent(in)
	out, err := c.ef.Process(context.Background(), e)
	verifAssert(in.A == snap.A && in.B == snap.B && in.C == snap.C && in.D == snap.D && in.E[0] == e0 && in.F == snap.F &&
		in.G == snap.G && in.H == snap.H, "C10.tag-spellings.original-untouched")
	if c.o.allNone() || (c.w == nil && c.o.needsWrapper()) {
		return
	}
	if err != nil {
		verifAssert(out == nil, "C09.tag-spellings.error-forwards-nothing")
		return
	}
	if out == nil {
		return
	}
	op, ok := out.Payload.(*pSpell)
	verifAssert(ok && op != in, "C10.tag-spellings.same-dynamic-type-distinct-object")
	if !ok {
		return
	}
	c.checkLeaf(op.A, snap.A, "Secret", NoOperation, "C09.tag-spellings.unknown-class-unknown-op")
	c.checkLeaf(op.B, snap.B, "private", NoOperation, "C09.tag-spellings.unknown-class-empty-op")
	c.checkLeaf(op.C, snap.C, "SENSITIVE", NoOperation, "C09.tag-spellings.upper-case-class")
	c.checkLeaf(op.D, snap.D, "x", NoOperation, "C09.tag-spellings.unknown-class-known-op")
	verifAssert(len(op.E) == 1, "C10.tag-spellings.slice-length-kept")
	if len(op.E) == 1 {
		c.checkLeaf(op.E[0], e0, "Secret", NoOperation, "C09.tag-spellings.unknown-class-slice")
	}
	c.checkLeaf(op.F, snap.F, "", NoOperation, "C09.tag-spellings.empty-class")
	c.checkLeaf(op.G, snap.G, "secret", NoOperation, "C09.tag-spellings.known-class-empty-op")
	c.checkLeaf(op.H, snap.H, "public", NoOperation, "C09.tag-spellings.public")
	verifReach("C09.tag-spellings.checked")
}
