package __PKG__

import (
	"context"

	"github.com/hashicorp/go-kms-wrapping/v2/aead"
)

// ---- histories of an encrypt.Filter through its public API against a reference model (C16) ---------------------------
//
// model: the wrapper, salt and info in force. Operations: an event with an HMAC-ed and an encrypted field; an event that
// asks for a per-event wrapper (EventWrapperInfo) with its own salt/info; Rotate with any subset of {wrapper, salt, info};
// a rotation payload with any subset. After H operations every value must have been protected with exactly the material
// in force when its event was processed.

type hcPlain struct {
	Tok string `class:"sensitive,hmac-sha256"`
	Enc string `class:"sensitive"`
}

func H_C16_history_vs_model() {
	ctx := context.Background()
	ws := [3]*aead.Wrapper{mkWrapper("w0"), mkWrapper("w1"), mkWrapper("w2")}
	salts := [3][]byte{{1}, {2, 2}, {3}}
	infos := [3][]byte{{4}, {5}, {6, 6}}
	w, salt, info := ws[0], salts[0], infos[0]
	ef := &Filter{Wrapper: w, HmacSalt: []byte{1}, HmacInfo: []byte{4}}
	H := verifParam("H")
	for i := 0; i < H; i++ {
		op := symLen(0, 3)
		verifNoteInt("op", op)
		switch op {
		case 0:
			raw, raw2 := nondetString(), nondetString()
			out, err := ef.Process(ctx, newEvent(&hcPlain{Tok: raw, Enc: raw2}))
			if err != nil || out == nil {
				// wrapper failures (uninterpreted Encrypt may fail) are the one-step harnesses' subject
				return
			}
			p, ok := out.Payload.(*hcPlain)
			verifAssert(ok, "C16.history.payload-type-kept")
			if !ok {
				return
			}
			verifAssert(p.Tok == refHmac(w, salt, info, []byte(raw)), "C16.history.hmac-under-material-in-force")
			if want, ok := refEncrypt(w, []byte(raw2)); ok {
				verifAssert(verifCipherEq(w, p.Enc, want), "C16.history.ciphertext-under-wrapper-in-force")
			}
		case 1:
			id := nondetString()
			verifAssume(id != "")
			raw := nondetString()
			// per-event salt / info take precedence when the event carries them; otherwise the filter's stay in force
			var es, ei []byte
			wantS, wantI := salt, info
			if nondetBool() {
				es = []byte{7}
				wantS = es
			}
			if nondetBool() {
				ei = []byte{8}
				wantI = ei
			}
			out, err := ef.Process(ctx, newEvent(&evPayload{id: id, salt: es, info: ei, Tok: raw}))
			if err != nil || out == nil {
				return
			}
			p, ok := out.Payload.(*evPayload)
			verifAssert(ok, "C16.history.event-payload-type-kept")
			if !ok {
				return
			}
			ew, err := NewEventWrapper(ctx, w, id)
			if err != nil {
				return
			}
			verifAssert(p.Tok == refHmac(ew.(*aead.Wrapper), wantS, wantI, []byte(raw)), "C16.history.event-hmac-under-derived-wrapper-and-salt-in-force")
		case 2, 3:
			k := symLen(1, 2)
			var nw *aead.Wrapper
			var ns, ni []byte
			if nondetBool() {
				nw = ws[k]
			}
			if nondetBool() {
				ns = append([]byte(nil), salts[k]...)
			}
			if nondetBool() {
				ni = append([]byte(nil), infos[k]...)
			}
			if op == 2 {
				var opts []Option
				if nw != nil {
					opts = append(opts, WithWrapper(nw))
				}
				opts = append(opts, WithSalt(ns), WithInfo(ni))
				ef.Rotate(opts...)
			} else {
				p := &rotPayload{salt: ns, info: ni}
				if nw != nil {
					p.w = nw
				}
				out, err := ef.Process(ctx, newEvent(p))
				verifAssert(out == nil && err == nil, "C16.history.rotation-payload-consumed")
			}
			if nw != nil {
				w = nw
			}
			if ns != nil {
				salt = salts[k]
			}
			if ni != nil {
				info = infos[k]
			}
		}
	}
	verifReach("C16.history.end")
}

// the per-event material (wrapper derived from the event id, the event's salt and info) reaches every protected value of the
// event, wherever the payload walker finds it: a direct field, behind a pointer, in a slice of structs, in a struct or a
// slice of structs stored in a map
type evItem struct {
	H string `class:"sensitive,hmac-sha256"`
}

type evDeep struct {
	id   string
	salt []byte
	info []byte
	Tok  string `class:"sensitive,hmac-sha256"`
	Sec  string `class:"secret,hmac-sha256"`
	P    *evItem
	L    []evItem
	M    map[string]interface{}
}

func (p *evDeep) EventId() string  { return p.id }
func (p *evDeep) HmacSalt() []byte { return p.salt }
func (p *evDeep) HmacInfo() []byte { return p.info }

func H_C16_event_material_everywhere() {
	ctx := context.Background()
	w := mkWrapper("w0")
	ef := &Filter{Wrapper: w, HmacSalt: []byte{1}, HmacInfo: []byte{4}}
	// with the sensitive class overridden to redact no class-level operation needs key material any more, but a field whose
	// tag names the operation itself still does — the event's
	sensRedacted := nondetBool()
	if sensRedacted {
		ef.FilterOperationOverrides = map[DataClassification]FilterOperation{SensitiveClassification: RedactOperation}
	}
	id := nondetString()
	verifAssume(id != "")
	es, ei := []byte{7}, []byte{8}
	a, b, c, d, f := nondetString(), nondetString(), nondetString(), nondetString(), nondetString()
	sec := nondetString()
	in := &evDeep{id: id, salt: es, info: ei, Tok: a, Sec: sec, P: &evItem{H: b}, L: []evItem{{H: c}},
		M: map[string]interface{}{"one": &evItem{H: d}, "many": []evItem{{H: f}}}}
	out, err := ef.Process(ctx, newEvent(in))
	if err != nil || out == nil {
		return
	}
	op, ok := out.Payload.(*evDeep)
	verifAssert(ok, "C16.everywhere.payload-type-kept")
	if !ok || op.P == nil || len(op.L) != 1 || op.M == nil {
		return
	}
	ew, err := NewEventWrapper(ctx, w, id)
	if err != nil {
		return
	}
	want := func(raw string) string { return refHmac(ew.(*aead.Wrapper), es, ei, []byte(raw)) }
	verifAssert(op.Sec == want(sec), "C16.everywhere.tag-level-operation-under-the-events-material")
	if sensRedacted {
		verifReach("C16.everywhere.redacted-class")
		return
	}
	verifAssert(op.Tok == want(a), "C16.everywhere.direct-field")
	verifAssert(op.P.H == want(b), "C16.everywhere.behind-pointer")
	verifAssert(op.L[0].H == want(c), "C16.everywhere.slice-of-structs")
	if one, ok := op.M["one"].(*evItem); ok {
		verifAssert(one.H == want(d), "C16.everywhere.struct-in-map")
	} else {
		verifAssert(false, "C16.everywhere.struct-in-map-kept")
	}
	if many, ok := op.M["many"].([]evItem); ok && len(many) == 1 {
		verifAssert(many[0].H == want(f), "C16.everywhere.slice-of-structs-in-map")
	} else {
		verifAssert(false, "C16.everywhere.slice-in-map-kept")
	}
	verifReach("C16.everywhere.end")
}
