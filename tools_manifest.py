#!/usr/bin/env python3
"""Regenerates MANIFEST.json from checks_config.PROPS and properties.jsonl."""
import json, sys
sys.path.insert(0, '/verif')
from checks_config import PROPS
props = [json.loads(l)['id'] for l in open('/verif/properties.jsonl')]
NA_REASON = {}
try:
    from checks_config import NOT_APPLICABLE as NA_REASON
except Exception:
    pass
checks = []
for p in props:
    if p not in PROPS:
        continue
    c = PROPS[p]
    checks.append(dict(property_id=p, quick_cmd="./check %s quick" % p, thorough_cmd="./check %s thorough" % p,
        evidence_file="/verif/evidence/%s.json" % p, replay_cmd_template="./check %s --replay {path}" % p, engine="gosym",
        level_claimed=dict(category=c.get("level", "other"), text=c.get("claim", c["explanation"]), design_ref="DESIGN.md §7 " + p),
        level_note=c.get("note", "Bounds — quick: %s; thorough: %s. Assumptions: %s. Trusted base: own go/ssa symbolic executor and its contracts for code outside /repo (%s), z3 4.8.12 (cross-checked by cvc5 and z3 5.1 in the thorough tier). Outside the claim: integer overflow, Go map iteration order beyond the orders exercised, and what DESIGN.md §7/§10/§12.4 lists for this property. Every counterexample is replayed against the real build before it is reported; exit 2 = inconclusive." % (
            c.get("bounds", {}).get("quick", "-"), c.get("bounds", {}).get("thorough", "-"), "; ".join(c.get("assumptions", [])) or "none beyond the trusted base",
            "; ".join(t for t in c.get("trusted_base", []) if t.startswith("contracts") or t.startswith("engine/") or t.startswith("ghost") or t.startswith("eo_compose"))[:600])),
        technique=c.get("technique", "bounded symbolic execution of go/ssa + SMT (z3), counterexamples replayed natively")))
m = dict(version=1,
    setup_cmd="cd /verif/engine && GOFLAGS=-mod=mod GOPROXY=off GOSUMDB=off GOTOOLCHAIN=local go build -o ../bin/gosym ./cmd/gosym",
    hooks=dict(guard="verif", enable="-tags verif (no hook is needed so far: harnesses and replays reach the compiler through overlays only)",
        baseline_off_cmd="cd /repo && GOFLAGS=-mod=mod GOPROXY=off GOSUMDB=off go test -vet=off -count=1 ./... && cd filters/encrypt && GOFLAGS=-mod=mod GOPROXY=off GOSUMDB=off go test -vet=off -count=1 ./...",
        source_commits=[], add_only=True),
    engines=[dict(name="gosym", path="/verif/engine", serves_properties=[c["property_id"] for c in checks],
        kind_free_text="path-wise symbolic executor for go/ssa (own implementation) emitting SMT-LIB2 to z3/cvc5; event-order composer for schedules; native replay of counterexamples through go test -overlay")],
    checks=checks,
    not_applicable=[dict(property_id=p, reason=NA_REASON.get(p, "check not built yet in this round (work in progress; see DESIGN.md §11)")) for p in props if p not in PROPS],
    notes="See DESIGN.md. Exit code 2 of a check = inconclusive (never reported as success). known_findings.json lists fixed defects and known findings.")
json.dump(m, open('/verif/MANIFEST.json', 'w'), indent=1)
print("claimed:", [c["property_id"] for c in checks])
