// Package smt: hash-consed terms with light simplification and an SMT-LIB2 printer.
package smt

import (
	"fmt"
	"math/big"
	"sort"
	"strings"
	"sync"
)

type Sort int

const (
	Bool Sort = iota
	Int
	String
)

// StrAsInt: encode the String sort as Int (strings are only compared for equality in the code in scope;
// str.++ / str.len become uninterpreted). Constants map injectively to integers, "" to 0.
var StrAsInt = false

var strCodes = map[string]int64{"": 0}
var strDecode = map[int64]string{0: ""}

func strCode(s string) int64 {
	mu.Lock()
	defer mu.Unlock()
	if c, ok := strCodes[s]; ok {
		return c
	}
	c := int64(len(strCodes)) + 1000
	strCodes[s] = c
	strDecode[c] = s
	return c
}

// DecodeStr maps a model integer back to a string value.
func DecodeStr(n int64) string {
	mu.Lock()
	defer mu.Unlock()
	if s, ok := strDecode[n]; ok {
		return s
	}
	return fmt.Sprintf("str%d", n)
}

func (s Sort) String() string {
	if s == String && StrAsInt {
		return "Int"
	}
	switch s {
	case Bool:
		return "Bool"
	case Int:
		return "Int"
	case String:
		return "String"
	}
	return "?"
}

type Op int

const (
	OpVar Op = iota
	OpConst
	OpNot
	OpAnd
	OpOr
	OpEq
	OpIte
	OpLt
	OpLe
	OpAdd
	OpSub
	OpMul
	OpNeg
	OpDiv
	OpMod
	OpConcat
	OpStrLen
	OpApp // uninterpreted function application; Name = function symbol
	OpDistinct
)

type Term struct {
	ID   int
	Op   Op
	Sort Sort
	Args []*Term
	Name string   // var / function name
	I    *big.Int // Int const
	B    bool     // Bool const
	S    string   // String const
	key  string
}

var (
	mu      sync.Mutex
	interns = map[string]*Term{}
	nextID  = 1
	// Funs records uninterpreted function signatures: name -> (arg sorts, result sort)
	Funs = map[string]FunSig{}
	// Vars records declared variables
	Vars = map[string]Sort{}
)

type FunSig struct {
	Args []Sort
	Res  Sort
}

func intern(t *Term) *Term {
	var sb strings.Builder
	fmt.Fprintf(&sb, "%d|%d|%s|", t.Op, t.Sort, t.Name)
	if t.Op == OpConst {
		switch t.Sort {
		case Int:
			sb.WriteString(t.I.String())
		case Bool:
			fmt.Fprintf(&sb, "%v", t.B)
		case String:
			sb.WriteString(t.S)
		}
	}
	for _, a := range t.Args {
		fmt.Fprintf(&sb, ",%d", a.ID)
	}
	k := sb.String()
	mu.Lock()
	defer mu.Unlock()
	if x, ok := interns[k]; ok {
		return x
	}
	t.ID = nextID
	nextID++
	t.key = k
	interns[k] = t
	return t
}

var (
	True  = intern(&Term{Op: OpConst, Sort: Bool, B: true})
	False = intern(&Term{Op: OpConst, Sort: Bool, B: false})
)

func BoolC(b bool) *Term {
	if b {
		return True
	}
	return False
}
func IntC(n int64) *Term    { return intern(&Term{Op: OpConst, Sort: Int, I: big.NewInt(n)}) }
func BigC(n *big.Int) *Term { return intern(&Term{Op: OpConst, Sort: Int, I: new(big.Int).Set(n)}) }
func StrC(s string) *Term   { return intern(&Term{Op: OpConst, Sort: String, S: s}) }

func Var(name string, s Sort) *Term {
	mu.Lock()
	Vars[name] = s
	mu.Unlock()
	return intern(&Term{Op: OpVar, Sort: s, Name: name})
}

func (t *Term) IsConst() bool { return t.Op == OpConst }
func (t *Term) IsTrue() bool  { return t == True }
func (t *Term) IsFalse() bool { return t == False }

// Int64 returns the constant value (ok=false if not a small const).
func (t *Term) Int64() (int64, bool) {
	if t.Op == OpConst && t.Sort == Int && t.I.IsInt64() {
		return t.I.Int64(), true
	}
	return 0, false
}

func Not(a *Term) *Term {
	if a.Op == OpConst {
		return BoolC(!a.B)
	}
	if a.Op == OpNot {
		return a.Args[0]
	}
	return intern(&Term{Op: OpNot, Sort: Bool, Args: []*Term{a}})
}

func nary(op Op, unit, zero *Term, args []*Term) *Term {
	var out []*Term
	seen := map[int]bool{}
	for _, a := range args {
		if a == zero {
			return zero
		}
		if a == unit {
			continue
		}
		if a.Op == op {
			for _, b := range a.Args {
				if !seen[b.ID] {
					seen[b.ID] = true
					out = append(out, b)
				}
			}
			continue
		}
		if !seen[a.ID] {
			seen[a.ID] = true
			out = append(out, a)
		}
	}
	for _, a := range out {
		if a.Op == OpNot && seen[a.Args[0].ID] {
			return zero
		}
	}
	if len(out) == 0 {
		return unit
	}
	if len(out) == 1 {
		return out[0]
	}
	sort.SliceStable(out, func(i, j int) bool { return out[i].ID < out[j].ID })
	return intern(&Term{Op: op, Sort: Bool, Args: out})
}

func And(args ...*Term) *Term { return nary(OpAnd, True, False, args) }
func Or(args ...*Term) *Term  { return nary(OpOr, False, True, args) }
func Implies(a, b *Term) *Term {
	return Or(Not(a), b)
}

func Eq(a, b *Term) *Term {
	if a == b {
		return True
	}
	if a.Sort != b.Sort {
		panic(fmt.Sprintf("smt.Eq sort mismatch %v %v: %s / %s", a.Sort, b.Sort, a, b))
	}
	if a.Op == OpConst && b.Op == OpConst {
		switch a.Sort {
		case Int:
			return BoolC(a.I.Cmp(b.I) == 0)
		case Bool:
			return BoolC(a.B == b.B)
		case String:
			return BoolC(a.S == b.S)
		}
	}
	if a.Sort == Bool {
		if a == True {
			return b
		}
		if b == True {
			return a
		}
		if a == False {
			return Not(b)
		}
		if b == False {
			return Not(a)
		}
	}
	// ite(c, k1, k2) == k (constants) simplification
	if a.Op == OpIte && b.Op == OpConst {
		return iteEqConst(a, b)
	}
	if b.Op == OpIte && a.Op == OpConst {
		return iteEqConst(b, a)
	}
	if a.ID > b.ID {
		a, b = b, a
	}
	return intern(&Term{Op: OpEq, Sort: Bool, Args: []*Term{a, b}})
}

func iteEqConst(it, k *Term) *Term {
	x, y := it.Args[1], it.Args[2]
	if (x.Op == OpConst || x.Op == OpIte) && (y.Op == OpConst || y.Op == OpIte) {
		return Ite(it.Args[0], Eq(x, k), Eq(y, k))
	}
	a, b := it, k
	if a.ID > b.ID {
		a, b = b, a
	}
	return intern(&Term{Op: OpEq, Sort: Bool, Args: []*Term{a, b}})
}

func Ne(a, b *Term) *Term { return Not(Eq(a, b)) }

func Ite(c, a, b *Term) *Term {
	if c == True {
		return a
	}
	if c == False {
		return b
	}
	if a == b {
		return a
	}
	if a.Sort == Bool {
		if a == True && b == False {
			return c
		}
		if a == False && b == True {
			return Not(c)
		}
		if a == True {
			return Or(c, b)
		}
		if a == False {
			return And(Not(c), b)
		}
		if b == True {
			return Or(Not(c), a)
		}
		if b == False {
			return And(c, a)
		}
	}
	return intern(&Term{Op: OpIte, Sort: a.Sort, Args: []*Term{c, a, b}})
}

func cmp(op Op, a, b *Term) *Term {
	if a.Op == OpConst && b.Op == OpConst {
		c := a.I.Cmp(b.I)
		if op == OpLt {
			return BoolC(c < 0)
		}
		return BoolC(c <= 0)
	}
	if a == b {
		return BoolC(op == OpLe)
	}
	return intern(&Term{Op: op, Sort: Bool, Args: []*Term{a, b}})
}

func Lt(a, b *Term) *Term { return cmp(OpLt, a, b) }
func Le(a, b *Term) *Term { return cmp(OpLe, a, b) }
func Gt(a, b *Term) *Term { return cmp(OpLt, b, a) }
func Ge(a, b *Term) *Term { return cmp(OpLe, b, a) }

func Add(a, b *Term) *Term {
	if a.Op == OpConst && b.Op == OpConst {
		return BigC(new(big.Int).Add(a.I, b.I))
	}
	if a.Op == OpConst && a.I.Sign() == 0 {
		return b
	}
	if b.Op == OpConst && b.I.Sign() == 0 {
		return a
	}
	// (x + c1) + c2
	if b.Op == OpConst && a.Op == OpAdd && a.Args[1].Op == OpConst {
		return Add(a.Args[0], BigC(new(big.Int).Add(a.Args[1].I, b.I)))
	}
	if b.Op == OpConst && a.Op == OpSub && a.Args[1].Op == OpConst {
		return Add(a.Args[0], BigC(new(big.Int).Sub(b.I, a.Args[1].I)))
	}
	if a.Op == OpConst {
		a, b = b, a
	}
	return intern(&Term{Op: OpAdd, Sort: Int, Args: []*Term{a, b}})
}

func Sub(a, b *Term) *Term {
	if a.Op == OpConst && b.Op == OpConst {
		return BigC(new(big.Int).Sub(a.I, b.I))
	}
	if b.Op == OpConst {
		return Add(a, BigC(new(big.Int).Neg(b.I)))
	}
	if a == b {
		return IntC(0)
	}
	return intern(&Term{Op: OpSub, Sort: Int, Args: []*Term{a, b}})
}

func Mul(a, b *Term) *Term {
	if a.Op == OpConst && b.Op == OpConst {
		return BigC(new(big.Int).Mul(a.I, b.I))
	}
	return intern(&Term{Op: OpMul, Sort: Int, Args: []*Term{a, b}})
}

func Neg(a *Term) *Term { return Sub(IntC(0), a) }

// Div/Mod are Go's truncated forms only for constants; symbolic use is printed as SMT div/mod (euclidean) and must be avoided by callers for negative values.
func Div(a, b *Term) *Term {
	if a.Op == OpConst && b.Op == OpConst && b.I.Sign() != 0 {
		return BigC(new(big.Int).Quo(a.I, b.I))
	}
	return intern(&Term{Op: OpDiv, Sort: Int, Args: []*Term{a, b}})
}
func Mod(a, b *Term) *Term {
	if a.Op == OpConst && b.Op == OpConst && b.I.Sign() != 0 {
		return BigC(new(big.Int).Rem(a.I, b.I))
	}
	return intern(&Term{Op: OpMod, Sort: Int, Args: []*Term{a, b}})
}

func Concat(a, b *Term) *Term {
	if a.Op == OpConst && b.Op == OpConst {
		return StrC(a.S + b.S)
	}
	if a.Op == OpConst && a.S == "" {
		return b
	}
	if b.Op == OpConst && b.S == "" {
		return a
	}
	return intern(&Term{Op: OpConcat, Sort: String, Args: []*Term{a, b}})
}

func StrLen(a *Term) *Term {
	if a.Op == OpConst {
		return IntC(int64(len(a.S)))
	}
	return intern(&Term{Op: OpStrLen, Sort: Int, Args: []*Term{a}})
}

// App builds an uninterpreted function application.
func App(name string, res Sort, args ...*Term) *Term {
	mu.Lock()
	if _, ok := Funs[name]; !ok {
		sig := FunSig{Res: res}
		for _, a := range args {
			sig.Args = append(sig.Args, a.Sort)
		}
		Funs[name] = sig
	}
	mu.Unlock()
	return intern(&Term{Op: OpApp, Sort: res, Name: name, Args: args})
}

func Distinct(args ...*Term) *Term {
	if len(args) < 2 {
		return True
	}
	var cs []*Term
	for i := range args {
		for j := i + 1; j < len(args); j++ {
			cs = append(cs, Ne(args[i], args[j]))
		}
	}
	return And(cs...)
}

// ---- printing ----

func smtString(s string) string {
	var sb strings.Builder
	sb.WriteByte('"')
	for _, r := range []byte(s) {
		switch {
		case r == '"':
			sb.WriteString(`""`)
		case r == '\\':
			sb.WriteString(`\u{5c}`)
		case r >= 0x20 && r < 0x7f:
			sb.WriteByte(r)
		default:
			fmt.Fprintf(&sb, `\u{%x}`, r)
		}
	}
	sb.WriteByte('"')
	return sb.String()
}

func symName(n string) string {
	ok := true
	for _, c := range n {
		if !(c >= 'a' && c <= 'z' || c >= 'A' && c <= 'Z' || c >= '0' && c <= '9' || c == '_' || c == '!' || c == '.' || c == '$') {
			ok = false
		}
	}
	if ok {
		return n
	}
	return "|" + strings.ReplaceAll(n, "|", "_") + "|"
}

// Head renders the operator application using the given renderer for arguments.
func (t *Term) render(arg func(*Term) string) string {
	switch t.Op {
	case OpVar:
		return symName(t.Name)
	case OpConst:
		switch t.Sort {
		case Bool:
			if t.B {
				return "true"
			}
			return "false"
		case Int:
			if t.I.Sign() < 0 {
				return "(- " + new(big.Int).Neg(t.I).String() + ")"
			}
			return t.I.String()
		case String:
			if StrAsInt {
				return fmt.Sprintf("%d", strCode(t.S))
			}
			return smtString(t.S)
		}
	}
	var op string
	switch t.Op {
	case OpNot:
		op = "not"
	case OpAnd:
		op = "and"
	case OpOr:
		op = "or"
	case OpEq:
		op = "="
	case OpIte:
		op = "ite"
	case OpLt:
		op = "<"
	case OpLe:
		op = "<="
	case OpAdd:
		op = "+"
	case OpSub:
		op = "-"
	case OpMul:
		op = "*"
	case OpDiv:
		op = "div"
	case OpMod:
		op = "mod"
	case OpConcat:
		op = "str.++"
		if StrAsInt {
			op = "uf_concat"
		}
	case OpStrLen:
		op = "str.len"
		if StrAsInt {
			op = "uf_strlen"
		}
	case OpApp:
		op = symName(t.Name)
		if len(t.Args) == 0 {
			return op
		}
	default:
		panic("render: bad op")
	}
	if t.Op == OpConcat && StrAsInt {
		// the empty string (code 0) is the unit of concatenation
		a, b := arg(t.Args[0]), arg(t.Args[1])
		return "(ite (= " + b + " 0) " + a + " (ite (= " + a + " 0) " + b + " (uf_concat " + a + " " + b + ")))"
	}
	var sb strings.Builder
	sb.WriteByte('(')
	sb.WriteString(op)
	for _, a := range t.Args {
		sb.WriteByte(' ')
		sb.WriteString(arg(a))
	}
	sb.WriteByte(')')
	return sb.String()
}

// String prints the term fully inlined (for diagnostics; may be large).
func (t *Term) String() string {
	return t.render(func(a *Term) string { return a.String() })
}

// Short prints with a size cap.
func (t *Term) Short() string {
	s := t.String()
	if len(s) > 300 {
		return s[:300] + "…"
	}
	return s
}

// CollectVars adds all variables of t into set.
func CollectVars(t *Term, seen map[int]bool, out map[string]*Term) {
	if seen[t.ID] {
		return
	}
	seen[t.ID] = true
	if t.Op == OpVar {
		out[t.Name] = t
	}
	for _, a := range t.Args {
		CollectVars(a, seen, out)
	}
}

// StrToIntConst parses a decimal literal into an Int constant.
func StrToIntConst(s string) *Term {
	n, ok := new(big.Int).SetString(s, 10)
	if !ok {
		return IntC(0)
	}
	return BigC(n)
}

// Lower is strings.ToLower: folded on constants, otherwise an uninterpreted function (integer string encoding) or
// str.to_lower (real strings, cvc5 only).
func Lower(t *Term) *Term {
	if t.IsConst() {
		return StrC(strings.ToLower(t.S))
	}
	if StrAsInt {
		return App("uf_lower", String, t)
	}
	return App("str.to_lower", String, t)
}
