package smt

import (
	"bufio"
	"fmt"
	"io"
	"math/big"
	"os"
	"os/exec"
	"strconv"
	"strings"
	"time"
)

type Result int

const (
	Sat Result = iota
	Unsat
	Unknown
)

func (r Result) String() string { return [...]string{"sat", "unsat", "unknown"}[r] }

// Session is one persistent solver process with an assertion stack that mirrors a path condition.
type Session struct {
	Name    string
	cmd     *exec.Cmd
	in      io.WriteCloser
	out     *bufio.Reader
	defined map[int]bool
	declV   map[string]bool
	declF   map[string]bool
	stack   []*Term
	Queries int
	Seconds float64
	Errors  []string
	cache   map[string]Result
	Log     io.Writer
	// Stats
	NSat, NUnsat, NUnknown int
	CacheHits              int
	TimeoutMs              int
}

// NewSession starts a solver. kind: "z3", "z3-new", "cvc5".
func NewSession(kind string, timeoutMs int) (*Session, error) {
	var args []string
	bin := kind
	switch kind {
	case "z3", "z3-new":
		args = []string{"-in"}
	case "cvc5":
		args = []string{"--incremental", "--strings-exp", "--lang=smt2", fmt.Sprintf("--tlimit-per=%d", timeoutMs)}
	default:
		return nil, fmt.Errorf("unknown solver %s", kind)
	}
	cmd := exec.Command(bin, args...)
	in, err := cmd.StdinPipe()
	if err != nil {
		return nil, err
	}
	outp, err := cmd.StdoutPipe()
	if err != nil {
		return nil, err
	}
	cmd.Stderr = os.Stderr
	if err := cmd.Start(); err != nil {
		return nil, err
	}
	s := &Session{Name: kind, cmd: cmd, in: in, out: bufio.NewReaderSize(outp, 1<<20),
		defined: map[int]bool{}, declV: map[string]bool{}, declF: map[string]bool{}, cache: map[string]Result{}, TimeoutMs: timeoutMs}
	s.send("(set-option :global-declarations true)")
	if kind == "cvc5" {
		s.send("(set-option :produce-models true)")
		s.send("(set-logic ALL)")
	} else {
		s.send(fmt.Sprintf("(set-option :timeout %d)", timeoutMs))
		s.send("(set-option :model.completion true)")
	}
	if StrAsInt {
		s.send("(declare-fun uf_concat (Int Int) Int)")
		s.send("(declare-fun uf_strlen (Int) Int)")
		s.send("(assert (= (uf_strlen 0) 0))")
	}
	if errs := s.sync(); len(errs) > 0 {
		return nil, fmt.Errorf("solver init: %v", errs)
	}
	return s, nil
}

func (s *Session) Close() {
	if s == nil || s.cmd == nil {
		return
	}
	s.in.Close()
	done := make(chan struct{})
	go func() { s.cmd.Wait(); close(done) }()
	select {
	case <-done:
	case <-time.After(2 * time.Second):
		s.cmd.Process.Kill()
	}
}

func (s *Session) send(line string) {
	if s.Log != nil {
		fmt.Fprintln(s.Log, line)
	}
	io.WriteString(s.in, line)
	io.WriteString(s.in, "\n")
}

// sync flushes and reads everything up to a marker; returns non-marker lines.
func (s *Session) sync() []string {
	s.send(`(echo "!done")`)
	var lines []string
	for {
		l, err := s.out.ReadString('\n')
		if err != nil {
			lines = append(lines, "(error \"solver died: "+err.Error()+"\")")
			s.Errors = append(s.Errors, lines[len(lines)-1])
			return lines
		}
		l = strings.TrimSpace(l)
		if l == "!done" || l == `"!done"` {
			break
		}
		if l != "" {
			lines = append(lines, l)
		}
	}
	for _, l := range lines {
		if strings.HasPrefix(l, "(error") {
			s.Errors = append(s.Errors, l)
		}
	}
	return lines
}

// ref makes sure t is defined in the solver and returns its reference text.
func (s *Session) ref(t *Term) string {
	switch t.Op {
	case OpConst:
		return t.render(nil)
	case OpVar:
		if !s.declV[t.Name] {
			s.declV[t.Name] = true
			s.send(fmt.Sprintf("(declare-const %s %s)", symName(t.Name), t.Sort))
		}
		return symName(t.Name)
	}
	if s.defined[t.ID] {
		return "t!" + strconv.Itoa(t.ID)
	}
	// iterative post-order to avoid deep recursion
	type fr struct {
		t *Term
		i int
	}
	stk := []fr{{t, 0}}
	for len(stk) > 0 {
		f := &stk[len(stk)-1]
		if f.i < len(f.t.Args) {
			a := f.t.Args[f.i]
			f.i++
			if a.Op != OpConst && a.Op != OpVar && !s.defined[a.ID] {
				stk = append(stk, fr{a, 0})
			} else if a.Op == OpVar {
				s.ref(a)
			}
			continue
		}
		x := f.t
		stk = stk[:len(stk)-1]
		if s.defined[x.ID] {
			continue
		}
		if x.Op == OpApp && !s.declF[x.Name] && !strings.HasPrefix(x.Name, "str.") {
			s.declF[x.Name] = true
			sig := Funs[x.Name]
			var as []string
			for _, a := range sig.Args {
				as = append(as, a.String())
			}
			s.send(fmt.Sprintf("(declare-fun %s (%s) %s)", symName(x.Name), strings.Join(as, " "), sig.Res))
		}
		body := x.render(func(a *Term) string {
			switch a.Op {
			case OpConst:
				return a.render(nil)
			case OpVar:
				return symName(a.Name)
			}
			return "t!" + strconv.Itoa(a.ID)
		})
		s.send(fmt.Sprintf("(define-fun t!%d () %s %s)", x.ID, x.Sort, body))
		s.defined[x.ID] = true
	}
	return "t!" + strconv.Itoa(t.ID)
}

func (s *Session) setStack(pc []*Term) {
	n := 0
	for n < len(pc) && n < len(s.stack) && pc[n] == s.stack[n] {
		n++
	}
	if len(s.stack) > n {
		s.send(fmt.Sprintf("(pop %d)", len(s.stack)-n))
		s.stack = s.stack[:n]
	}
	for _, t := range pc[n:] {
		r := s.ref(t)
		s.send("(push 1)")
		s.send("(assert " + r + ")")
		s.stack = append(s.stack, t)
	}
}

func keyOf(pc []*Term, extra *Term) string {
	var sb strings.Builder
	for _, t := range pc {
		sb.WriteString(strconv.Itoa(t.ID))
		sb.WriteByte(',')
	}
	sb.WriteByte('|')
	if extra != nil {
		sb.WriteString(strconv.Itoa(extra.ID))
	}
	return sb.String()
}

// Check decides pc ∧ extra. extra may be nil.
func (s *Session) Check(pc []*Term, extra *Term) Result {
	if extra != nil {
		if extra.IsFalse() {
			return Unsat
		}
		if extra.IsTrue() {
			extra = nil
		}
	}
	for _, t := range pc {
		if t.IsFalse() {
			return Unsat
		}
	}
	k := keyOf(pc, extra)
	if r, ok := s.cache[k]; ok {
		s.CacheHits++
		return r
	}
	r := s.checkRaw(pc, extra)
	s.cache[k] = r
	return r
}

func (s *Session) checkRaw(pc []*Term, extra *Term) Result {
	t0 := time.Now()
	s.setStack(pc)
	if extra != nil {
		r := s.ref(extra)
		s.send("(push 1)")
		s.send("(assert " + r + ")")
	}
	s.send("(check-sat)")
	lines := s.sync()
	if extra != nil {
		s.send("(pop 1)")
	}
	s.Queries++
	s.Seconds += time.Since(t0).Seconds()
	res := Unknown
	bad := false
	for _, l := range lines {
		switch l {
		case "sat":
			res = Sat
		case "unsat":
			res = Unsat
		case "unknown":
			res = Unknown
		default:
			if strings.HasPrefix(l, "(error") {
				bad = true
			}
		}
	}
	if bad {
		res = Unknown
	}
	switch res {
	case Sat:
		s.NSat++
	case Unsat:
		s.NUnsat++
	default:
		s.NUnknown++
	}
	return res
}

// Model checks pc ∧ extra and, if sat, returns values of the given variables.
func (s *Session) Model(pc []*Term, extra *Term, vars []*Term) (Result, map[string]string) {
	t0 := time.Now()
	s.setStack(pc)
	if extra != nil {
		r := s.ref(extra)
		s.send("(push 1)")
		s.send("(assert " + r + ")")
	}
	s.send("(check-sat)")
	lines := s.sync()
	s.Queries++
	res := Unknown
	for _, l := range lines {
		switch l {
		case "sat":
			res = Sat
		case "unsat":
			res = Unsat
		}
		if strings.HasPrefix(l, "(error") {
			res = Unknown
		}
	}
	vals := map[string]string{}
	if res == Sat && len(vars) > 0 {
		var names []string
		alias := map[string]string{}
		for _, v := range vars {
			r := s.ref(v)
			names = append(names, r)
			if v.Op == OpApp && v.Name == "uf_lower" && len(v.Args) == 1 && v.Args[0].Op == OpVar {
				alias[r] = "lower(" + v.Args[0].Name + ")"
			}
			if v.Op == OpApp && (v.Name == "uf_hasprefix" || v.Name == "uf_hassuffix") && len(v.Args) == 2 && v.Args[0].Op == OpVar && v.Args[1].IsConst() {
				alias[r] = v.Name[3:] + "(" + v.Args[0].Name + ")|" + v.Args[1].S
			}
		}
		defer func() {
			for r, a := range alias {
				if x, ok := vals[r]; ok {
					vals[a] = x
				}
			}
		}()
		// chunk to keep lines reasonable
		for i := 0; i < len(names); i += 50 {
			j := i + 50
			if j > len(names) {
				j = len(names)
			}
			s.send("(get-value (" + strings.Join(names[i:j], " ") + "))")
			out := strings.Join(s.sync(), " ")
			parseValues(out, vals)
		}
	}
	if extra != nil {
		s.send("(pop 1)")
	}
	s.Seconds += time.Since(t0).Seconds()
	return res, vals
}

// parseValues parses "((name value) (name value) ...)".
func parseValues(s string, out map[string]string) {
	toks := tokenize(s)
	// expect ( ( name val ) ... )
	i := 0
	if i < len(toks) && toks[i] == "(" {
		i++
	}
	for i < len(toks) && toks[i] == "(" {
		i++
		if i >= len(toks) {
			return
		}
		name := toks[i]
		i++
		val, ni := readSexp(toks, i)
		i = ni
		if i < len(toks) && toks[i] == ")" {
			i++
		}
		out[strings.Trim(name, "|")] = val
	}
}

func tokenize(s string) []string {
	var toks []string
	i := 0
	for i < len(s) {
		c := s[i]
		switch {
		case c == ' ' || c == '\n' || c == '\t' || c == '\r':
			i++
		case c == '(' || c == ')':
			toks = append(toks, string(c))
			i++
		case c == '"':
			j := i + 1
			for j < len(s) {
				if s[j] == '"' {
					if j+1 < len(s) && s[j+1] == '"' {
						j += 2
						continue
					}
					break
				}
				j++
			}
			toks = append(toks, s[i:j+1])
			i = j + 1
		case c == '|':
			j := i + 1
			for j < len(s) && s[j] != '|' {
				j++
			}
			toks = append(toks, s[i:j+1])
			i = j + 1
		default:
			j := i
			for j < len(s) && !strings.ContainsRune(" \n\t\r()", rune(s[j])) {
				j++
			}
			toks = append(toks, s[i:j])
			i = j
		}
	}
	return toks
}

func readSexp(toks []string, i int) (string, int) {
	if i >= len(toks) {
		return "", i
	}
	if toks[i] != "(" {
		return toks[i], i + 1
	}
	depth := 0
	var parts []string
	for i < len(toks) {
		t := toks[i]
		parts = append(parts, t)
		i++
		if t == "(" {
			depth++
		} else if t == ")" {
			depth--
			if depth == 0 {
				break
			}
		}
	}
	return strings.Join(parts, " "), i
}

// ParseInt parses an SMT integer value such as "5" or "( - 5 )".
func ParseInt(v string) (*big.Int, bool) {
	v = strings.TrimSpace(v)
	neg := false
	if strings.HasPrefix(v, "(") {
		v = strings.Trim(v, "() ")
		if strings.HasPrefix(v, "-") {
			neg = true
			v = strings.TrimSpace(v[1:])
		}
	}
	n, ok := new(big.Int).SetString(v, 10)
	if !ok {
		return nil, false
	}
	if neg {
		n.Neg(n)
	}
	return n, true
}

// ParseString decodes an SMT-LIB string literal.
func ParseString(v string) (string, bool) {
	v = strings.TrimSpace(v)
	if len(v) < 2 || v[0] != '"' {
		return "", false
	}
	v = v[1 : len(v)-1]
	v = strings.ReplaceAll(v, `""`, `"`)
	var sb strings.Builder
	for i := 0; i < len(v); i++ {
		if v[i] == '\\' && i+2 < len(v) && v[i+1] == 'u' && v[i+2] == '{' {
			j := strings.IndexByte(v[i:], '}')
			if j > 0 {
				n, err := strconv.ParseInt(v[i+3:i+j], 16, 32)
				if err == nil {
					if n < 256 {
						sb.WriteByte(byte(n))
					} else {
						sb.WriteRune(rune(n))
					}
					i += j
					continue
				}
			}
		}
		if v[i] == '\\' && i+5 < len(v) && v[i+1] == 'u' {
			n, err := strconv.ParseInt(v[i+2:i+6], 16, 32)
			if err == nil {
				sb.WriteByte(byte(n))
				i += 5
				continue
			}
		}
		if v[i] == '\\' && i+3 < len(v) && v[i+1] == 'x' {
			n, err := strconv.ParseInt(v[i+2:i+4], 16, 32)
			if err == nil {
				sb.WriteByte(byte(n))
				i += 3
				continue
			}
		}
		sb.WriteByte(v[i])
	}
	return sb.String(), true
}
