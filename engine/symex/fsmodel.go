package symex

// Ghost file system (DESIGN §3.6 / C08): contracts for os.*, path/filepath.*, sort.Strings used by FileSink.
// Names are strings built by the real code from literals and decimal timestamps; they are parsed back into
// (prefix, Int hole, suffix) so that equality, glob matching and lexicographic order are decided structurally on the
// literals and as integer comparisons on the holes (A-19digits: all timestamps print with the same number of digits).

import (
	"fmt"
	"go/types"
	"sort"
	"strings"

	"verif/engine/smt"
)

type FName struct {
	Lit  string    // fully literal name (Hole == nil)
	Pre  string    // literal prefix
	Hole *smt.Term // Int printed in decimal
	Suf  string
}

func (n FName) String() string {
	if n.Hole == nil {
		return n.Lit
	}
	return n.Pre + "<" + n.Hole.Short() + ">" + n.Suf
}

type FSInode struct {
	ID      int
	Content *smt.Term // String: everything written so far
	Mode    *smt.Term // Int
	Writes  int
	Last    *smt.Term // argument of the last write that was accepted in full (nil: none)
}

type FSEntry struct {
	Name  FName
	Ino   int
	Order int // creation order of the directory entry
}

type FSState struct {
	Entries []FSEntry
	Inodes  map[int]*FSInode
	Dirs    map[string]*smt.Term // directory -> mode
	NextIno int
	NextOrd int
	Removed []string // rendered names removed via os.Remove
}

type FileV struct { // *os.File
	Ino    int
	Name   *smt.Term
	Append bool
	Closed bool
	Std    string
	// Partial: the descriptor accepts only part of its first write and then fails (a pipe whose reader went away,
	// a full disk): n bytes with 0 < n < len are taken, the call returns (n, err); later writes fail completely
	Partial bool
	Broken  bool
}

func (ex *Executor) fsGet(st *State) *FSState {
	if v, ok := st.Ghost["fs"].(*FSState); ok {
		return v
	}
	return &FSState{Inodes: map[int]*FSInode{}, Dirs: map[string]*smt.Term{}}
}

func (fs *FSState) clone() *FSState {
	n := &FSState{Entries: append([]FSEntry(nil), fs.Entries...), Inodes: map[int]*FSInode{}, Dirs: map[string]*smt.Term{}, NextIno: fs.NextIno, NextOrd: fs.NextOrd,
		Removed: append([]string(nil), fs.Removed...)}
	for k, v := range fs.Inodes {
		c := *v
		n.Inodes[k] = &c
	}
	for k, v := range fs.Dirs {
		n.Dirs[k] = v
	}
	return n
}

// flattenConcat splits a string term into its concatenated segments.
func flattenConcat(t *smt.Term, out *[]*smt.Term) {
	if t.Op == smt.OpConcat {
		flattenConcat(t.Args[0], out)
		flattenConcat(t.Args[1], out)
		return
	}
	*out = append(*out, t)
}

func (ex *Executor) parseName(t *smt.Term) FName {
	var segs []*smt.Term
	flattenConcat(t, &segs)
	n := FName{}
	cur := ""
	for _, s := range segs {
		switch {
		case s.IsConst():
			cur += s.S
		case s.Op == smt.OpApp && s.Name == "itoa":
			if n.Hole != nil {
				ex.abort("file name with two numeric holes: %s", t.Short())
			}
			n.Pre = cur
			cur = ""
			n.Hole = s.Args[0]
		default:
			ex.abort("file name is not literal/timestamp shaped: %s", t.Short())
		}
	}
	if n.Hole == nil {
		n.Lit = cur
	} else {
		n.Suf = cur
	}
	return n
}

func nameTerm(n FName) *smt.Term {
	if n.Hole == nil {
		return smt.StrC(n.Lit)
	}
	return smt.Concat(smt.Concat(smt.StrC(n.Pre), smt.App("itoa", smt.String, n.Hole)), smt.StrC(n.Suf))
}

// nameEq: Bool term for equality of two names
func nameEq(a, b FName) *smt.Term {
	if a.Hole == nil && b.Hole == nil {
		return smt.BoolC(a.Lit == b.Lit)
	}
	if a.Hole != nil && b.Hole != nil {
		if a.Pre == b.Pre && a.Suf == b.Suf {
			return smt.Eq(a.Hole, b.Hole)
		}
		return smt.False // different literal skeletons (19-digit holes)
	}
	// literal vs hole: equal only if the literal has the skeleton with 19 digits in the middle — excluded for the
	// harness's literal names (checked)
	lit, h := a, b
	if a.Hole != nil {
		lit, h = b, a
	}
	if strings.HasPrefix(lit.Lit, h.Pre) && strings.HasSuffix(lit.Lit, h.Suf) && len(lit.Lit) > len(h.Pre)+len(h.Suf) {
		mid := lit.Lit[len(h.Pre) : len(lit.Lit)-len(h.Suf)]
		allDigits := mid != ""
		for _, c := range mid {
			if c < '0' || c > '9' {
				allDigits = false
			}
		}
		if allDigits {
			return smt.Eq(h.Hole, smt.StrToIntConst(mid))
		}
	}
	return smt.False
}

// fsFind forks over which directory entry (if any) has the given name.
func (ex *Executor) fsFind(st *State, fs *FSState, n FName) int {
	for i, e := range fs.Entries {
		if ex.branch(st, nameEq(e.Name, n)) {
			return i
		}
	}
	return -1
}

func (ex *Executor) mkErr(st *State, tag string) Val {
	es := ex.lookupType("errors", "errorString")
	p := ex.alloc(st, es, tag, &StructV{[]Val{smt.StrC(tag)}})
	return IfaceV{T: types.NewPointer(es), V: p}
}

// nameLess decides a < b lexicographically (forking on the integer comparison when both have holes).
func (ex *Executor) nameLess(st *State, a, b FName) bool {
	if a.Hole == nil && b.Hole == nil {
		return a.Lit < b.Lit
	}
	if a.Hole != nil && b.Hole != nil {
		if a.Pre == b.Pre {
			if a.Suf == b.Suf {
				return ex.branch(st, smt.Lt(a.Hole, b.Hole))
			}
			// same prefix, equal-width digits: decided by the digits unless they are equal
			if ex.branch(st, smt.Eq(a.Hole, b.Hole)) {
				return a.Suf < b.Suf
			}
			return ex.branch(st, smt.Lt(a.Hole, b.Hole))
		}
		return litLessWithDigits(a.Pre, b.Pre)
	}
	// one literal, one with a hole
	if a.Hole == nil {
		return ex.litVsHoleLess(a.Lit, b)
	}
	return !ex.litVsHoleLess(b.Lit, a) && true
}

func litLessWithDigits(p, q string) bool {
	// compare literal prefixes; where one is a prefix of the other the next character of the shorter side is a digit
	n := len(p)
	if len(q) < n {
		n = len(q)
	}
	if p[:n] != q[:n] {
		return p[:n] < q[:n]
	}
	if len(p) == len(q) {
		return false
	}
	if len(p) < len(q) {
		return '5' < q[n] // a digit vs the other's literal character: digits sort before letters, after '-' '.' '/'
	}
	return p[n] < '5'
}

func (ex *Executor) litVsHoleLess(lit string, h FName) bool {
	n := len(h.Pre)
	if len(lit) < n {
		if lit == h.Pre[:len(lit)] {
			return true
		}
		return lit < h.Pre
	}
	if lit[:n] != h.Pre {
		return lit[:n] < h.Pre
	}
	if len(lit) == n {
		return true
	}
	c := lit[n]
	if c >= '0' && c <= '9' {
		ex.abort("ambiguous order between literal name %q and a timestamped name", lit)
	}
	return c < '0'
}

func registerFS(ex *Executor) {
	I := ex.Intr
	strOf := func(v Val) *smt.Term { return v.(*smt.Term) }
	I["os.MkdirAll"] = func(ex *Executor, st *State, cc *CallCtx, args []Val) (Val, ctl) {
		fs := ex.fsGet(st).clone()
		p := strOf(args[0])
		if !p.IsConst() {
			ex.abort("MkdirAll with symbolic path")
		}
		for d := p.S; d != "" && d != "/"; d = d[:strings.LastIndex(d, "/")] {
			if _, ok := fs.Dirs[d]; !ok && d != "/logs" {
				fs.Dirs[d] = args[1].(*smt.Term)
			}
			if !strings.Contains(d, "/") {
				break
			}
		}
		st.Ghost["fs"] = fs
		return IfaceV{}, cNext
	}
	I["path/filepath.Join"] = func(ex *Executor, st *State, cc *CallCtx, args []Val) (Val, ctl) {
		parts := ex.sliceElems(st, args[0].(SliceV))
		var acc *smt.Term
		for _, p := range parts {
			t := p.(*smt.Term)
			if t.IsConst() && t.S == "" {
				continue
			}
			if acc == nil {
				acc = t
			} else {
				if acc.IsConst() && strings.HasSuffix(acc.S, "/") {
					acc = smt.Concat(acc, t)
				} else {
					acc = smt.Concat(smt.Concat(acc, smt.StrC("/")), t)
				}
			}
		}
		if acc == nil {
			acc = smt.StrC("")
		}
		return acc, cNext
	}
	I["os.OpenFile"] = func(ex *Executor, st *State, cc *CallCtx, args []Val) (Val, ctl) {
		name := strOf(args[0])
		flags, ok := args[1].(*smt.Term).Int64()
		if !ok {
			ex.abort("OpenFile with symbolic flags")
		}
		const oAPPEND, oCREATE, oTRUNC = 0x400, 0x40, 0x200
		fs0 := ex.fsGet(st)
		n := ex.parseName(name)
		i := ex.fsFind(st, fs0, n)
		fs := fs0.clone()
		ft := ex.lookupType("os", "File")
		if i < 0 {
			if flags&oCREATE == 0 {
				return TupleV{Ptr{}, ex.mkErr(st, "ENOENT")}, cNext
			}
			if !fs.dirExists(n) {
				// creating a file needs its directory: only the harness's base directory exists from the start
				return TupleV{Ptr{}, ex.mkErr(st, "ENOENT")}, cNext
			}
			fs.NextIno++
			fs.NextOrd++
			fs.Inodes[fs.NextIno] = &FSInode{ID: fs.NextIno, Content: smt.StrC(""), Mode: umasked(args[2].(*smt.Term))}
			fs.Entries = append(fs.Entries, FSEntry{Name: n, Ino: fs.NextIno, Order: fs.NextOrd})
			i = len(fs.Entries) - 1
			st.note("fs: create %s", n)
		} else if flags&oTRUNC != 0 {
			fs.Inodes[fs.Entries[i].Ino].Content = smt.StrC("")
			st.note("fs: truncate %s", n)
		}
		st.Ghost["fs"] = fs
		p := ex.alloc(st, ft, "os.File:"+n.String(), &FileV{Ino: fs.Entries[i].Ino, Name: name, Append: flags&oAPPEND != 0})
		return TupleV{p, IfaceV{}}, cNext
	}
	I["(*os.File).Write"] = func(ex *Executor, st *State, cc *CallCtx, args []Val) (Val, ctl) {
		p := args[0].(Ptr)
		if p.Obj == nil {
			return TupleV{smt.IntC(0), ex.mkErr(st, "invalid argument (nil *os.File)")}, cNext
		}
		fv, ok := ex.load(st, p).(*FileV)
		if !ok {
			// os.Stdout / os.Stderr (materialised globals)
			key := "fs.std:" + p.Obj.Name
			old, _ := st.Ghost[key].(*smt.Term)
			if old == nil {
				old = smt.StrC("")
			}
			b := args[1].(BytesV)
			st.Ghost[key] = smt.Concat(old, ex.bytesContent(st, b))
			return TupleV{ex.strLen(st, b.S), IfaceV{}}, cNext
		}
		b, okb := args[1].(BytesV)
		if !okb {
			ex.abort("File.Write of %T", args[1])
		}
		data := ex.bytesContent(st, b)
		ex.logAccess(st, p, true) // the descriptor's file position / content: one writer at a time
		if fv.Closed {
			return TupleV{smt.IntC(0), ex.mkErr(st, "file already closed")}, cNext
		}
		// fault injection (all-or-nothing, A-write) when the harness enabled it
		if fl, _ := st.Ghost["fs.faults"].(*smt.Term); fl != nil && fl.IsTrue() {
			fail := smt.Var(fmt.Sprintf("nd%d_%s", len(st.ND), "writefail"), smt.Bool)
			failed := ex.branch(st, fail)
			st.ND = append(st.ND[:len(st.ND):len(st.ND)], NDRec{Kind: "ext-bool", Tag: "write(2) fails", T: fail})
			if failed {
				st.note("fs: write fails")
				return TupleV{smt.IntC(0), ex.mkErr(st, "EIO")}, cNext
			}
		}
		if fv.Broken {
			return TupleV{smt.IntC(0), ex.mkErr(st, "EPIPE")}, cNext
		}
		if fv.Partial {
			n := st.fresh("partial_n", smt.Int)
			l := ex.strLen(st, data)
			st.addPC(smt.Lt(smt.IntC(0), n))
			st.addPC(smt.Lt(n, l))
			fs := ex.fsGet(st).clone()
			ino := fs.Inodes[fv.Ino]
			ino.Content = smt.Concat(ino.Content, smt.App("prefix", smt.String, data, n))
			st.Ghost["fs"] = fs
			nf := *fv
			nf.Partial, nf.Broken = false, true
			ex.store(st, p, &nf)
			st.note("fs: partial write then failure")
			return TupleV{n, ex.mkErr(st, "EPIPE")}, cNext
		}
		fs := ex.fsGet(st).clone()
		ino := fs.Inodes[fv.Ino]
		ino.Last = data
		if fv.Append {
			ino.Content = smt.Concat(ino.Content, data)
		} else {
			if ino.Content.IsConst() && ino.Content.S == "" {
				ino.Content = data
			} else {
				ino.Content = smt.App("overwrite_at_0", smt.String, ino.Content, data)
			}
		}
		ino.Writes++
		st.Ghost["fs"] = fs
		return TupleV{ex.strLen(st, data), IfaceV{}}, cNext
	}
	I["(*os.File).Close"] = func(ex *Executor, st *State, cc *CallCtx, args []Val) (Val, ctl) {
		p := args[0].(Ptr)
		if p.Obj == nil {
			return ex.mkErr(st, "invalid argument"), cNext
		}
		fv, ok := ex.load(st, p).(*FileV)
		if !ok {
			return IfaceV{}, cNext
		}
		if fv.Closed {
			return ex.mkErr(st, "file already closed"), cNext
		}
		nf := *fv
		nf.Closed = true
		ex.store(st, p, &nf)
		return IfaceV{}, cNext
	}
	I["(*os.File).Name"] = func(ex *Executor, st *State, cc *CallCtx, args []Val) (Val, ctl) {
		fv := ex.load(st, args[0].(Ptr)).(*FileV)
		return fv.Name, cNext
	}
	// os.Stat is a Go model (verifModelStat in models.go) over these two leaves
	I["@verifStatRaw"] = func(ex *Executor, st *State, cc *CallCtx, args []Val) (Val, ctl) {
		fs := ex.fsGet(st)
		i := ex.fsFind(st, fs, ex.parseName(strOf(args[0])))
		if i < 0 {
			return TupleV{smt.IntC(0), smt.IntC(0), smt.False}, cNext
		}
		ino := fs.Inodes[fs.Entries[i].Ino]
		return TupleV{ex.strLen(st, ino.Content), ino.Mode, smt.True}, cNext
	}
	I["@verifFStatRaw"] = func(ex *Executor, st *State, cc *CallCtx, args []Val) (Val, ctl) {
		p := args[0].(Ptr)
		if p.Obj == nil {
			return TupleV{smt.IntC(0), smt.IntC(0), smt.False}, cNext
		}
		fv, ok := ex.load(st, p).(*FileV)
		if !ok || fv.Closed {
			return TupleV{smt.IntC(0), smt.IntC(0), smt.False}, cNext
		}
		ino := ex.fsGet(st).Inodes[fv.Ino]
		return TupleV{ex.strLen(st, ino.Content), ino.Mode, smt.True}, cNext
	}
	// the modification time of an existing file is whatever its history made it: an arbitrary instant after the epoch,
	// recorded so that a native replay can give the file that age (verifAgeFile)
	I["@verifFMTimeRaw"] = func(ex *Executor, st *State, cc *CallCtx, args []Val) (Val, ctl) {
		v := smt.Var(fmt.Sprintf("nd%d_%s", len(st.ND), "int"), smt.Int)
		st.ND = append(st.ND[:len(st.ND):len(st.ND)], NDRec{Kind: "ext-int", Tag: "mtime", T: v})
		st.addPC(smt.Gt(v, smt.IntC(0)))
		return v, cNext
	}
	I["@verifMTimeRawName"] = func(ex *Executor, st *State, cc *CallCtx, args []Val) (Val, ctl) {
		v := smt.Var(fmt.Sprintf("nd%d_%s", len(st.ND), "int"), smt.Int)
		st.ND = append(st.ND[:len(st.ND):len(st.ND)], NDRec{Kind: "ext-int", Tag: "mtime-by-name", T: v})
		st.addPC(smt.Gt(v, smt.IntC(0)))
		return v, cNext
	}
	I["@verifAgeFiles"] = func(ex *Executor, st *State, cc *CallCtx, args []Val) (Val, ctl) { return nil, cNext }
	I["@verifAgeFile"] = func(ex *Executor, st *State, cc *CallCtx, args []Val) (Val, ctl) { return nil, cNext }
	I["@verifENOENT"] = func(ex *Executor, st *State, cc *CallCtx, args []Val) (Val, ctl) {
		return ex.mkErr(st, "ENOENT"), cNext
	}
	I["os.IsNotExist"] = func(ex *Executor, st *State, cc *CallCtx, args []Val) (Val, ctl) {
		iv := args[0].(IfaceV)
		if iv.T == nil {
			return smt.False, cNext
		}
		if p, ok := iv.V.(Ptr); ok && p.Obj != nil && strings.HasPrefix(p.Obj.Name, "ENOENT") {
			return smt.True, cNext
		}
		return smt.False, cNext
	}
	I["os.Rename"] = func(ex *Executor, st *State, cc *CallCtx, args []Val) (Val, ctl) {
		fs0 := ex.fsGet(st)
		from, to := ex.parseName(strOf(args[0])), ex.parseName(strOf(args[1]))
		i := ex.fsFind(st, fs0, from)
		if i < 0 {
			return ex.mkErr(st, "ENOENT"), cNext
		}
		j := ex.fsFind(st, fs0, to)
		fs := fs0.clone()
		ent := fs.Entries[i]
		ent.Name = to
		fs.NextOrd++
		var ne []FSEntry
		for k, e := range fs.Entries {
			if k == i || k == j {
				continue
			}
			ne = append(ne, e)
		}
		ne = append(ne, ent)
		fs.Entries = ne
		st.Ghost["fs"] = fs
		st.note("fs: rename %s -> %s", from, to)
		return IfaceV{}, cNext
	}
	I["os.Remove"] = func(ex *Executor, st *State, cc *CallCtx, args []Val) (Val, ctl) {
		fs0 := ex.fsGet(st)
		n := ex.parseName(strOf(args[0]))
		i := ex.fsFind(st, fs0, n)
		if i < 0 {
			return ex.mkErr(st, "ENOENT"), cNext
		}
		fs := fs0.clone()
		fs.Removed = append(fs.Removed, n.String())
		fs.Entries = append(append([]FSEntry(nil), fs.Entries[:i]...), fs.Entries[i+1:]...)
		st.Ghost["fs"] = fs
		st.note("fs: remove %s", n)
		return IfaceV{}, cNext
	}
	// os.RemoveAll(dir): the directory, everything below it and the directories below it disappear (open descriptors keep
	// their inodes)
	I["os.RemoveAll"] = func(ex *Executor, st *State, cc *CallCtx, args []Val) (Val, ctl) {
		p := strOf(args[0])
		if !p.IsConst() {
			ex.abort("RemoveAll with symbolic path")
		}
		fs := ex.fsGet(st).clone()
		pre := p.S + "/"
		var keep []FSEntry
		for _, e := range fs.Entries {
			full := e.Name.Lit
			if e.Name.Hole != nil {
				full = e.Name.Pre
			}
			if strings.HasPrefix(full, pre) {
				fs.Removed = append(fs.Removed, e.Name.String())
				continue
			}
			keep = append(keep, e)
		}
		fs.Entries = keep
		for d := range fs.Dirs {
			if d == p.S || strings.HasPrefix(d, pre) {
				delete(fs.Dirs, d)
			}
		}
		st.Ghost["fs"] = fs
		st.note("fs: remove-all %s", p.S)
		return IfaceV{}, cNext
	}
	I["os.Chmod"] = func(ex *Executor, st *State, cc *CallCtx, args []Val) (Val, ctl) {
		fs0 := ex.fsGet(st)
		i := ex.fsFind(st, fs0, ex.parseName(strOf(args[0])))
		if i < 0 {
			return ex.mkErr(st, "ENOENT"), cNext
		}
		fs := fs0.clone()
		fs.Inodes[fs.Entries[i].Ino].Mode = args[1].(*smt.Term)
		st.Ghost["fs"] = fs
		return IfaceV{}, cNext
	}
	I["path/filepath.Glob"] = func(ex *Executor, st *State, cc *CallCtx, args []Val) (Val, ctl) {
		pat := strOf(args[0])
		if !pat.IsConst() || strings.Count(pat.S, "*") != 1 {
			ex.abort("Glob pattern not of the form prefix*suffix: %s", pat.Short())
		}
		k := strings.Index(pat.S, "*")
		pre, suf := pat.S[:k], pat.S[k+1:]
		fs := ex.fsGet(st)
		var es []Val
		for _, e := range fs.Entries {
			m := false
			if e.Name.Hole != nil {
				// the '*' must not match a '/': the hole is digits only
				m = strings.HasPrefix(e.Name.Pre, pre) && strings.HasSuffix(e.Name.Suf, suf) && !strings.Contains(e.Name.Pre[len(pre):]+e.Name.Suf[:len(e.Name.Suf)-len(suf)], "/")
			} else {
				l := e.Name.Lit
				m = len(l) >= len(pre)+len(suf) && strings.HasPrefix(l, pre) && strings.HasSuffix(l, suf) && !strings.Contains(l[len(pre):len(l)-len(suf)], "/")
			}
			if m {
				es = append(es, nameTerm(e.Name))
			}
		}
		o := ex.newObj(types.NewArray(types.Typ[types.String], int64(len(es))), "glob")
		st.Heap[o] = &ArrayV{es}
		return TupleV{SliceV{Arr: o, Len: len(es), Cap: len(es)}, IfaceV{}}, cNext
	}
	I["sort.Strings"] = func(ex *Executor, st *State, cc *CallCtx, args []Val) (Val, ctl) {
		s := args[0].(SliceV)
		if s.Len < 2 {
			return nil, cNext
		}
		es := append([]Val(nil), ex.sliceElems(st, s)...)
		names := make([]FName, len(es))
		for i, e := range es {
			names[i] = ex.parseName(e.(*smt.Term))
		}
		// insertion sort; every comparison between two timestamped names is a (forking) integer comparison
		idx := make([]int, len(es))
		for i := range idx {
			idx[i] = i
		}
		for i := 1; i < len(idx); i++ {
			for j := i; j > 0 && ex.nameLess(st, names[idx[j]], names[idx[j-1]]); j-- {
				idx[j], idx[j-1] = idx[j-1], idx[j]
			}
		}
		for k, i := range idx {
			ex.store(st, Ptr{s.Arr, pathAppend("", 'i', s.Off+k)}, es[i])
		}
		return nil, cNext
	}
	// ---- harness access to the ghost file system ----
	I["@verifFSFaults"] = func(ex *Executor, st *State, cc *CallCtx, args []Val) (Val, ctl) {
		st.Ghost["fs.faults"] = args[0].(*smt.Term)
		return nil, cNext
	}
	I["os.WriteFile"] = func(ex *Executor, st *State, cc *CallCtx, args []Val) (Val, ctl) {
		fs0 := ex.fsGet(st)
		n := ex.parseName(strOf(args[0]))
		i := ex.fsFind(st, fs0, n)
		fs := fs0.clone()
		var data *smt.Term
		switch b := args[1].(type) {
		case BytesV:
			data = b.S
		case SliceV:
			data = ex.convert(st, b, nil, types.Typ[types.String]).(*smt.Term)
		}
		if i < 0 {
			fs.NextIno++
			fs.NextOrd++
			fs.Inodes[fs.NextIno] = &FSInode{ID: fs.NextIno, Content: data, Mode: umasked(args[2].(*smt.Term))}
			fs.Entries = append(fs.Entries, FSEntry{Name: n, Ino: fs.NextIno, Order: fs.NextOrd})
		} else {
			fs.Inodes[fs.Entries[i].Ino].Content = data
		}
		st.Ghost["fs"] = fs
		return IfaceV{}, cNext
	}
	I["os.ReadFile"] = func(ex *Executor, st *State, cc *CallCtx, args []Val) (Val, ctl) {
		fs := ex.fsGet(st)
		i := ex.fsFind(st, fs, ex.parseName(strOf(args[0])))
		if i < 0 {
			return TupleV{SliceV{}, ex.mkErr(st, "ENOENT")}, cNext
		}
		return TupleV{BytesV{S: fs.Inodes[fs.Entries[i].Ino].Content, Nil: smt.False}, IfaceV{}}, cNext
	}
	// verifFileMode(name) int : permission bits of an existing file (-1 if absent)
	I["@verifFileMode"] = func(ex *Executor, st *State, cc *CallCtx, args []Val) (Val, ctl) {
		fs := ex.fsGet(st)
		i := ex.fsFind(st, fs, ex.parseName(strOf(args[0])))
		if i < 0 {
			return smt.IntC(-1), cNext
		}
		return fs.Inodes[fs.Entries[i].Ino].Mode, cNext
	}
	I["@verifDirMode"] = func(ex *Executor, st *State, cc *CallCtx, args []Val) (Val, ctl) {
		fs := ex.fsGet(st)
		p := strOf(args[0])
		if m, ok := fs.Dirs[p.S]; ok {
			return m, cNext
		}
		return smt.IntC(-1), cNext
	}
	// verifNameLess(a, b string) bool : lexicographic order of two file names
	I["@verifNameLess"] = func(ex *Executor, st *State, cc *CallCtx, args []Val) (Val, ctl) {
		return smt.BoolC(ex.nameLess(st, ex.parseName(strOf(args[0])), ex.parseName(strOf(args[1])))), cNext
	}
	// verifPlantFailingFile(f **os.File): the sink's descriptor is replaced by one that takes only part of the next
	// write and then fails (natively: a pipe whose reader goes away)
	I["@verifPlantFailingFile"] = func(ex *Executor, st *State, cc *CallCtx, args []Val) (Val, ctl) {
		fs := ex.fsGet(st).clone()
		fs.NextIno++
		fs.Inodes[fs.NextIno] = &FSInode{ID: fs.NextIno, Content: smt.StrC(""), Mode: smt.IntC(0)}
		st.Ghost["fs"] = fs
		ft := ex.lookupType("os", "File")
		np := ex.alloc(st, ft, "os.File:failing-pipe", &FileV{Ino: fs.NextIno, Name: smt.StrC("|pipe"), Append: true, Partial: true})
		ex.store(st, args[0].(Ptr), np)
		return nil, cNext
	}
	// verifFDEndsWith(f, data): the last write accepted in full by the file f refers to was exactly data
	I["@verifFDEndsWith"] = func(ex *Executor, st *State, cc *CallCtx, args []Val) (Val, ctl) {
		p := args[0].(Ptr)
		if p.Obj == nil {
			return smt.False, cNext
		}
		fv := ex.load(st, p).(*FileV)
		ino := ex.fsGet(st).Inodes[fv.Ino]
		if ino.Last == nil {
			return smt.False, cNext
		}
		return smt.Eq(ino.Last, args[1].(*smt.Term)), cNext
	}
	// verifBig(s): natively the string is blown up beyond a pipe's capacity; symbolically the identity
	I["@verifBig"] = func(ex *Executor, st *State, cc *CallCtx, args []Val) (Val, ctl) { return args[0], cNext }
	I["@verifNameEq"] = func(ex *Executor, st *State, cc *CallCtx, args []Val) (Val, ctl) {
		return nameEq(ex.parseName(strOf(args[0])), ex.parseName(strOf(args[1]))), cNext
	}
	// verifFDContent(f *os.File) string : content of the inode an open file refers to (whatever its current name)
	I["@verifFDContent"] = func(ex *Executor, st *State, cc *CallCtx, args []Val) (Val, ctl) {
		p := args[0].(Ptr)
		if p.Obj == nil {
			return smt.StrC(""), cNext
		}
		fv := ex.load(st, p).(*FileV)
		return ex.fsGet(st).Inodes[fv.Ino].Content, cNext
	}
	// verifFDIsName(f *os.File, name string) bool : does the open file refer to the inode currently named `name`
	I["@verifFDIsName"] = func(ex *Executor, st *State, cc *CallCtx, args []Val) (Val, ctl) {
		p := args[0].(Ptr)
		if p.Obj == nil {
			return smt.False, cNext
		}
		fv := ex.load(st, p).(*FileV)
		fs := ex.fsGet(st)
		i := ex.fsFind(st, fs, ex.parseName(strOf(args[1])))
		return smt.BoolC(i >= 0 && fs.Entries[i].Ino == fv.Ino && !fv.Closed), cNext
	}
	// symbolically the JSON encoder's failure is a function of the value's shape; natively this returns an unencodable
	// value when the replayed run has the encoder fail
	I["@verifMaybeUnencodable"] = func(ex *Executor, st *State, cc *CallCtx, args []Val) (Val, ctl) {
		return IfaceV{}, cNext
	}
	I["@verifPlantPersistentWriteFault"] = func(ex *Executor, st *State, cc *CallCtx, args []Val) (Val, ctl) {
		return args[1], cNext
	}
	I["@verifTempDir"] = func(ex *Executor, st *State, cc *CallCtx, args []Val) (Val, ctl) {
		return smt.StrC("/logs"), cNext
	}
	I["@verifCaptureStd"] = func(ex *Executor, st *State, cc *CallCtx, args []Val) (Val, ctl) { return nil, cNext }
	I["@verifStdout"] = func(ex *Executor, st *State, cc *CallCtx, args []Val) (Val, ctl) {
		total := smt.StrC("")
		var keys []string
		for k := range st.Ghost {
			if strings.HasPrefix(k, "fs.std:") {
				keys = append(keys, k)
			}
		}
		sort.Strings(keys)
		for _, k := range keys {
			total = smt.Concat(total, st.Ghost[k].(*smt.Term))
		}
		return total, cNext
	}
}

// umasked: the permission bits a newly created file really gets: the requested ones minus the process umask. The model
// fixes the usual umask 022 (A-umask; the native harness sets it as well): group-write (020) and other-write (002) are
// cleared. Only an explicit Chmod gives a file exactly the requested mode.
func umasked(perm *smt.Term) *smt.Term {
	if perm.IsConst() {
		if v, ok := perm.Int64(); ok {
			return smt.IntC(v &^ 0o22)
		}
	}
	bit := func(w int64) *smt.Term { return smt.Mod(smt.Div(perm, smt.IntC(w)), smt.IntC(2)) }
	return smt.Sub(smt.Sub(perm, smt.Mul(smt.IntC(16), bit(16))), smt.Mul(smt.IntC(2), bit(2)))
}

// dirExists: the directory part of a file name is the harness's base directory ("/logs", "/dev", or no directory at all)
// or was created by MkdirAll
func (fs *FSState) dirExists(n FName) bool {
	full := n.Lit
	if n.Hole != nil {
		full = n.Pre
	}
	i := strings.LastIndex(full, "/")
	if i <= 0 {
		return true
	}
	d := full[:i]
	if d == "/logs" || d == "/dev" {
		return true
	}
	_, ok := fs.Dirs[d]
	return ok
}
