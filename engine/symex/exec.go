package symex

import (
	"fmt"
	"go/constant"
	"go/token"
	"go/types"
	"os"
	"sort"
	"strings"

	"verif/engine/smt"

	"golang.org/x/tools/go/ssa"
)

// ctl tells the run loop what happened.
type ctl int

const (
	cNext   ctl = iota // instruction done, IP already advanced as needed
	cBlock             // current thread cannot proceed (retry later)
	cEnd               // path ended (violation / abort / finished)
	cSwitch            // thread finished or yielded; pick another
)

type Violation struct {
	ID     string
	Msg    string
	Model  map[string]string
	ND     []NDRec
	Notes  []string
	Stack  string
	PCSize int
	Pos    string
}

type PathEnd struct {
	Kind  string // "ok", "panic", "abort", "deadlock", "infeasible", "unwind"
	Msg   string
	Notes []string
	NPC   int
	Sym   bool
}

type Stats struct {
	Paths, Forks, Obligations, Discharged, TrivialAsserts int
	Violations                                         int
	Unknown                                            int
	Aborts                                             int
	Steps                                              int
	Reach                                              map[string]int
	AssertIDs                                          map[string]int
	Funcs                                              map[string]bool
	Intrinsics                                         map[string]int
	SymPaths                                           int
	OverflowChecks                                     int
}

type Executor struct {
	Prog    *ssa.Program
	Solver  *smt.Session
	Intr    map[string]Intrinsic
	Redir   map[string]*ssa.Function
	work    []*State
	Stats   Stats
	Viol    []Violation
	Ends    []PathEnd
	Samples []string
	nextObj int
	globals map[*ssa.Global]*Obj
	BaseHeap map[*Obj]Val
	LoopCap int
	MaxPaths int
	MaxSteps int
	Verbose  bool
	AbortMsgs []string
	// access log pairs found
	Races []Race
	// AllAccess collects finished par-sections for race analysis
	HarnessPkg *ssa.Package
	// StopAtFirst violation per assert id
	seenViol map[string]bool
	// Overrides: function full name -> replacement harness function
	Overrides map[string]*ssa.Function
	// OnPathEnd callback
	OnPathEnd func(st *State, kind string)
	typeObjs map[string]types.Type
	initSkip func(fn *ssa.Function) bool
	Params   map[string]int
	ShardBits, ShardID int
	MaxSwitches int
	shallowTypes []types.Type
	usesLower    bool
	psOther      bool // the last pointerstructure walk failed on a non-container (not ErrNotFound)
	affixes      map[string]bool // "uf_hasprefix|lit" / "uf_hassuffix|lit" asked of some string variable
	// witnesses: solver models of complete paths, for validating the translation against the native build
	WitnessMax int
	Witnesses  []Witness
	witnessSeen int
	eo         *eoCtx
	reachCache map[*ssa.BasicBlock]map[int]bool
}

func NewExecutor(prog *ssa.Program, solver *smt.Session) *Executor {
	ex := &Executor{Prog: prog, Solver: solver, Intr: map[string]Intrinsic{}, affixes: map[string]bool{}, Redir: map[string]*ssa.Function{},
		globals: map[*ssa.Global]*Obj{}, BaseHeap: map[*Obj]Val{}, LoopCap: 40, MaxSwitches: 3, MaxPaths: 200000, MaxSteps: 2000000,
		seenViol: map[string]bool{}, Overrides: map[string]*ssa.Function{}, Params: map[string]int{}}
	ex.Stats.Reach = map[string]int{}
	ex.Stats.AssertIDs = map[string]int{}
	ex.Stats.Funcs = map[string]bool{}
	ex.Stats.Intrinsics = map[string]int{}
	registerIntrinsics(ex)
	return ex
}

type abortPath struct{ msg string }

func (ex *Executor) abort(format string, a ...interface{}) {
	panic(abortPath{fmt.Sprintf(format, a...)})
}

func (ex *Executor) newObj(t types.Type, name string) *Obj {
	ex.nextObj++
	return &Obj{ID: ex.nextObj, Typ: t, Name: name}
}

func (ex *Executor) alloc(st *State, t types.Type, name string, v Val) Ptr {
	o := ex.newObj(t, name)
	st.Heap[o] = v
	return Ptr{Obj: o}
}

// ---------- memory ----------

func (ex *Executor) logAccess(st *State, p Ptr, write bool) {
	if !st.LogOn || !p.Obj.Shared {
		return
	}
	t := st.th()
	f := st.fr()
	var pos token.Pos
	if f.IP < len(f.Block.Instrs) {
		pos = f.Block.Instrs[f.IP].Pos()
	}
	lm := make(map[string]byte, len(t.Locks))
	for k, v := range t.Locks {
		lm[k] = v
	}
	st.Access = append(st.Access[:len(st.Access):len(st.Access)], Access{Region: t.Region, Tid: t.ID, Obj: p.Obj, Path: p.Path, Write: write,
		Locks: renderLocks(t.Locks), LockM: lm, Pos: pos, Fn: f.Fn.String()})
}

func (ex *Executor) load(st *State, p Ptr) Val {
	if p.Obj == nil {
		ex.goPanic(st, "nil pointer dereference")
	}
	root, ok := st.Heap[p.Obj]
	if !ok {
		ex.abort("load of unknown object %v", p.Obj)
	}
	ex.logAccess(st, p, false)
	return getPath(root, parsePath(p.Path))
}

func (ex *Executor) store(st *State, p Ptr, v Val) {
	if p.Obj == nil {
		ex.goPanic(st, "nil pointer dereference (store)")
	}
	root, ok := st.Heap[p.Obj]
	if !ok {
		ex.abort("store to unknown object %v", p.Obj)
	}
	ex.logAccess(st, p, true)
	if st.LogOn && p.Obj.Shared {
		ex.markShared(st, v)
	}
	st.dirty = true
	st.Heap[p.Obj] = setPath(root, parsePath(p.Path), v)
}

// markShared marks every object reachable from v as shared (published).
func (ex *Executor) markShared(st *State, v Val) {
	switch x := v.(type) {
	case Ptr:
		ex.markObjShared(st, x.Obj)
	case MapV:
		ex.markObjShared(st, x.Obj)
	case ChanV:
		ex.markObjShared(st, x.Obj)
	case SliceV:
		ex.markObjShared(st, x.Arr)
	case IfaceV:
		ex.markShared(st, x.V)
	case *StructV:
		for _, f := range x.Fields {
			ex.markShared(st, f)
		}
	case *ArrayV:
		for _, f := range x.Elems {
			ex.markShared(st, f)
		}
	case FuncV:
		for _, e := range x.Env {
			ex.markShared(st, e)
		}
		if x.HasRv {
			ex.markShared(st, x.Recv)
		}
	case *MapData:
		for _, e := range x.Entries {
			ex.markShared(st, e.K)
			ex.markShared(st, e.V)
		}
	case *SyncMapV:
		for _, e := range x.Entries {
			ex.markShared(st, e.K)
			ex.markShared(st, e.V)
		}
	case *ChanData:
		for _, e := range x.Buf {
			ex.markShared(st, e)
		}
	}
}

func (ex *Executor) markObjShared(st *State, o *Obj) {
	if o == nil || o.Shared {
		return
	}
	o.Shared = true
	if v, ok := st.Heap[o]; ok {
		ex.markShared(st, v)
	}
}

// ---------- panics / violations ----------

type endPath struct {
	kind string
	msg  string
}

func (ex *Executor) goPanic(st *State, msg string) {
	panic(endPath{"panic", msg})
}

func (ex *Executor) curPos(st *State) string {
	if len(st.Threads) == 0 || len(st.th().Frames) == 0 {
		return ""
	}
	t := st.th()
	for i := len(t.Frames) - 1; i >= 0; i-- {
		f := t.Frames[i]
		ip := f.IP
		if i < len(t.Frames)-1 && ip > 0 {
			ip--
		}
		for ; ip >= 0 && ip < len(f.Block.Instrs); ip-- {
			if p := f.Block.Instrs[ip].Pos(); p.IsValid() {
				return ex.Prog.Fset.Position(p).String()
			}
		}
	}
	return ""
}

func (ex *Executor) affixList() [][2]string {
	var out [][2]string
	for k := range ex.affixes {
		i := strings.Index(k, "|")
		out = append(out, [2]string{k[:i], k[i+1:]})
	}
	sort.Slice(out, func(i, j int) bool { return out[i][0]+out[i][1] < out[j][0]+out[j][1] })
	return out
}

func (ex *Executor) ndVars(st *State) []*smt.Term {
	seen := map[int]bool{}
	vars := map[string]*smt.Term{}
	for _, r := range st.ND {
		smt.CollectVars(r.T, seen, vars)
	}
	var out []*smt.Term
	for _, r := range st.ND {
		if r.T.Op == smt.OpVar {
			if v, ok := vars[r.T.Name]; ok {
				out = append(out, v)
				delete(vars, r.T.Name)
				if v.Sort == smt.String && smt.StrAsInt && ex.usesLower {
					out = append(out, smt.Lower(v))
				}
				if v.Sort == smt.String {
					for _, a := range ex.affixList() {
						out = append(out, smt.App(a[0], smt.Bool, v, smt.StrC(a[1])))
					}
				}
			}
		}
	}
	return out
}

// violate records a violation with a model of pc ∧ extra.
func (ex *Executor) violate(st *State, id, msg string, extra *smt.Term) {
	ex.Stats.Violations++
	vars := ex.ndVars(st)
	res, model := ex.Solver.Model(st.PC, extra, vars)
	if res != smt.Sat {
		model = nil
	}
	v := Violation{ID: id, Msg: msg, Model: model, ND: append([]NDRec(nil), st.ND...), Notes: append([]string(nil), st.Notes...),
		Stack: st.stackString(), PCSize: len(st.PC), Pos: ex.curPos(st)}
	ex.Viol = append(ex.Viol, v)
	if ex.Verbose {
		fmt.Fprintf(os.Stderr, "VIOL %s: %s at %s\n  notes=%v\n", id, msg, v.Pos, st.Notes)
	}
}

// ---------- branching ----------

// branch decides a symbolic condition for the current state, forking if both sides are feasible.
func (ex *Executor) branch(st *State, c *smt.Term) bool {
	if c.IsTrue() {
		return true
	}
	if c.IsFalse() {
		return false
	}
	nc := smt.Not(c)
	if st.pcHas(c) {
		return true
	}
	if st.pcHas(nc) {
		return false
	}
	if st.dirty {
		ex.abort("internal: branch after side effect in %s", st.fr().Fn)
	}
	rT := ex.Solver.Check(st.PC, c)
	if rT == smt.Unsat {
		st.addPC(nc)
		return false
	}
	rF := ex.Solver.Check(st.PC, nc)
	if rF == smt.Unsat {
		st.addPC(c)
		return true
	}
	if rT == smt.Unknown || rF == smt.Unknown {
		ex.Stats.Unknown++
		st.Tainted = true
	}
	if st.ForkDepth < ex.ShardBits {
		// sharded exploration: this process follows one side of the first ShardBits two-sided forks
		bit := (ex.ShardID >> uint(st.ForkDepth)) & 1
		st.ForkDepth++
		if bit == 1 {
			st.addPC(c)
			return true
		}
		st.addPC(nc)
		return false
	}
	ex.Stats.Forks++
	if len(st.PC) > 3000 {
		ex.abort("runaway forking at %s: %s", ex.curPos(st), c.Short())
	}
	other := st.clone()
	other.addPC(nc)
	ex.work = append(ex.work, other)
	st.addPC(c)
	return true
}

// ---------- running ----------

// Run explores fn (a harness entry point with no parameters) exhaustively.
func (ex *Executor) Run(fn *ssa.Function) {
	st := &State{Heap: map[*Obj]Val{}, pcSet: map[int]bool{}, Ghost: map[string]Val{}}
	for k, v := range ex.BaseHeap {
		st.Heap[k] = v
	}
	th := &Thread{ID: 0, Locks: map[string]byte{}}
	st.Threads = []*Thread{th}
	st.nextTid = 1
	ex.pushFrame(st, th, fn, nil, nil, nil)
	ex.work = append(ex.work, st)
	for len(ex.work) > 0 {
		s := ex.work[len(ex.work)-1]
		ex.work = ex.work[:len(ex.work)-1]
		if ex.Stats.Paths >= ex.MaxPaths {
			ex.AbortMsgs = append(ex.AbortMsgs, "max paths reached")
			ex.Stats.Aborts++
			ex.work = nil
			break
		}
		ex.runPath(s)
	}
}

type Witness struct {
	ND      []NDRec
	Model   map[string]string
	Reached []string
}

func (ex *Executor) maybeWitness(st *State) {
	if ex.WitnessMax == 0 || len(st.ND) == 0 || st.Ghost["witness.skip"] != nil {
		return
	}
	for _, r := range st.ND {
		if r.Kind != "int" && r.Kind != "bool" && r.Kind != "string" {
			return // environment choices cannot be forced natively
		}
	}
	ex.witnessSeen++
	// keep the first few and then every 2^k-th path so that late parts of the exploration are sampled too
	n := ex.witnessSeen
	if len(ex.Witnesses) >= ex.WitnessMax && n&(n-1) != 0 {
		return
	}
	res, model := ex.Solver.Model(st.PC, nil, ex.ndVars(st))
	if res != smt.Sat {
		return
	}
	w := Witness{ND: append([]NDRec(nil), st.ND...), Model: model, Reached: append([]string(nil), st.Reached...)}
	if len(ex.Witnesses) < ex.WitnessMax {
		ex.Witnesses = append(ex.Witnesses, w)
	} else {
		ex.Witnesses[n%ex.WitnessMax] = w
	}
}

func (ex *Executor) endPath(st *State, kind, msg string) {
	if kind == "ok" {
		ex.maybeWitness(st)
	}
	ex.Stats.Paths++
	ex.Stats.Steps += st.Steps
	if len(st.PC) > 0 {
		ex.Stats.SymPaths++
	}
	if kind == "abort" || kind == "unwind" {
		ex.Stats.Aborts++
		ex.AbortMsgs = append(ex.AbortMsgs, kind+": "+msg+" @ "+ex.curPos(st)+" ["+st.stackString()+"]")
	}
	if len(ex.Ends) < 2000 {
		ex.Ends = append(ex.Ends, PathEnd{Kind: kind, Msg: msg, Notes: st.Notes, NPC: len(st.PC)})
	}
	if ex.OnPathEnd != nil {
		ex.OnPathEnd(st, kind)
	}
	if ex.Verbose {
		fmt.Fprintf(os.Stderr, "path %d end: %s %s pc=%d steps=%d notes=%v\n", ex.Stats.Paths, kind, msg, len(st.PC), st.Steps, st.Notes)
	}
}

func (ex *Executor) runPath(st *State) {
	defer func() {
		if r := recover(); r != nil {
			switch e := r.(type) {
			case abortPath:
				ex.endPath(st, "abort", e.msg)
			case endPath:
				if e.kind == "panic" {
					ex.violate(st, "panic", "Go panic: "+e.msg, nil)
				}
				ex.endPath(st, e.kind, e.msg)
			default:
				// an engine-level failure (unsupported construct reached through an unexpected value shape):
				// the path is inconclusive, never a success
				ex.endPath(st, "abort", fmt.Sprintf("engine error: %v", r))
			}
		}
	}()
	for {
		// pick a runnable thread
		t := st.th()
		if t.Status != Runnable {
			if !ex.schedule(st) {
				return
			}
			continue
		}
		if len(t.Frames) == 0 {
			t.Status = Done
			continue
		}
		st.Steps++
		if st.Steps > ex.MaxSteps {
			ex.endPath(st, "abort", "max steps")
			return
		}
		f := st.fr()
		instr := f.Block.Instrs[f.IP]
		st.dirty = false
		c := ex.exec(st, f, instr)
		switch c {
		case cEnd:
			return
		case cBlock:
			t.Status = Blocked
		}
	}
}

// schedule picks another thread; returns false if the path is over.
func (ex *Executor) schedule(st *State) bool {
	// main thread finished => path ends (check leaks)
	n := len(st.Threads)
	// try blocked threads: they retry their instruction
	for k := 1; k <= n; k++ {
		i := (st.Cur + k) % n
		t := st.Threads[i]
		if t.Status == Runnable {
			st.Cur = i
			return true
		}
	}
	// all threads blocked or done: retry blocked ones once (poll)
	progress := false
	for i, t := range st.Threads {
		if t.Status == Blocked && ex.canResume(st, t) {
			t.Status = Runnable
			st.Cur = i
			progress = true
			break
		}
	}
	if progress {
		return true
	}
	main := st.Threads[0]
	if main.Status == Done {
		var stuck []string
		for _, t := range st.Threads[1:] {
			if t.Status == Blocked {
				stuck = append(stuck, fmt.Sprintf("T%d:%s", t.ID, t.BlockWhy))
			}
		}
		if len(stuck) > 0 {
			st.Cur = 0
			ex.violate(st, "goroutine-leak", "goroutines left blocked: "+strings.Join(stuck, "; "), nil)
			ex.endPath(st, "leak", strings.Join(stuck, "; "))
			return false
		}
		ex.endPath(st, "ok", "")
		return false
	}
	var stuck []string
	for _, t := range st.Threads {
		if t.Status == Blocked {
			stuck = append(stuck, fmt.Sprintf("T%d:%s", t.ID, t.BlockWhy))
		}
	}
	for i, t := range st.Threads {
		if t.Status == Blocked {
			st.Cur = i
			break
		}
	}
	ex.violate(st, "deadlock", "all goroutines blocked: "+strings.Join(stuck, "; "), nil)
	ex.endPath(st, "deadlock", strings.Join(stuck, "; "))
	return false
}

// ---------- frames ----------

func (ex *Executor) pushFrame(st *State, th *Thread, fn *ssa.Function, args []Val, env []Val, dest ssa.Value) *Frame {
	if fn.Blocks == nil {
		ex.abort("call of function without body: %s", fn)
	}
	if len(th.Frames) > 200 {
		ex.abort("call depth exceeded in %s", fn)
	}
	f := &Frame{Fn: fn, Block: fn.Blocks[0], Regs: make(map[ssa.Value]Val, 16), Dest: dest, Visits: map[int]int{}}
	for i, p := range fn.Params {
		if i < len(args) {
			f.Regs[p] = args[i]
		}
	}
	for i, fv := range fn.FreeVars {
		f.Regs[fv] = env[i]
	}
	th.Frames = append(th.Frames, f)
	ex.Stats.Funcs[fn.String()] = true
	return f
}

func (ex *Executor) get(st *State, f *Frame, v ssa.Value) Val {
	switch x := v.(type) {
	case *ssa.Const:
		return ex.constVal(x)
	case *ssa.Function:
		return FuncV{Fn: x}
	case *ssa.Global:
		return ex.globalPtr(st, x)
	case *ssa.Builtin:
		return FuncV{Intr: "builtin:" + x.Name()}
	}
	r, ok := f.Regs[v]
	if !ok {
		ex.abort("read of unset register %s (%T) in %s", v.Name(), v, f.Fn)
	}
	return r
}

func (ex *Executor) constVal(c *ssa.Const) Val {
	t := c.Type()
	if c.Value == nil {
		return ex.zero(t)
	}
	if isNamed(t, "time", "Time") {
		return ZeroTime()
	}
	switch u := t.Underlying().(type) {
	case *types.Basic:
		switch {
		case u.Info()&types.IsBoolean != 0:
			return smt.BoolC(constant.BoolVal(c.Value))
		case u.Info()&types.IsString != 0:
			return smt.StrC(constant.StringVal(c.Value))
		case u.Info()&types.IsInteger != 0:
			if i, ok := constant.Int64Val(constant.ToInt(c.Value)); ok {
				return smt.IntC(i)
			}
			if u64, ok := constant.Uint64Val(constant.ToInt(c.Value)); ok {
				b := smt.IntC(0).I
				_ = b
				bi := new(bigInt).SetUint64(u64)
				return smt.BigC(bi)
			}
		case u.Info()&types.IsFloat != 0:
			// floats are not modelled: only integral float constants are accepted
			f, _ := constant.Float64Val(c.Value)
			if f == float64(int64(f)) {
				return smt.IntC(int64(f))
			}
		}
	}
	ex.abort("unsupported constant %s of type %s", c, t)
	return nil
}

func (ex *Executor) globalPtr(st *State, g *ssa.Global) Ptr {
	o, ok := ex.globals[g]
	if !ok {
		et := g.Type().(*types.Pointer).Elem()
		o = ex.newObj(et, "global:"+g.String())
		o.Shared = true
		ex.globals[g] = o
	}
	if _, ok := st.Heap[o]; !ok {
		et := g.Type().(*types.Pointer).Elem()
		st.Heap[o] = ex.materializeGlobal(st, g, et)
	}
	return Ptr{Obj: o}
}

// materializeGlobal gives package-level variables of packages whose init is not executed a plausible distinct value.
func (ex *Executor) materializeGlobal(st *State, g *ssa.Global, et types.Type) Val {
	if v, ok := ex.BaseHeap[ex.globals[g]]; ok {
		return v
	}
	switch u := et.Underlying().(type) {
	case *types.Interface:
		if types.Identical(et, types.Universe.Lookup("error").Type()) {
			// a distinct error object
			es := ex.lookupType("errors", "errorString")
			if es != nil {
				p := ex.alloc(st, es, "err:"+g.String(), &StructV{[]Val{smt.StrC(g.Name())}})
				return IfaceV{T: types.NewPointer(es), V: p}
			}
		}
	case *types.Pointer:
		if _, ok := u.Elem().Underlying().(*types.Struct); ok {
			p := ex.alloc(st, u.Elem(), "glob:"+g.String(), ex.zero(u.Elem()))
			p.Obj.Shared = true
			return p
		}
	}
	return ex.zero(et)
}

func (ex *Executor) lookupType(pkgPath, name string) types.Type {
	for _, p := range ex.Prog.AllPackages() {
		if p.Pkg.Path() == pkgPath {
			if o := p.Pkg.Scope().Lookup(name); o != nil {
				return o.Type()
			}
		}
	}
	return nil
}

func (ex *Executor) setReg(f *Frame, v ssa.Value, val Val) {
	f.Regs[v] = val
}

// ---------- instruction semantics ----------

func (ex *Executor) exec(st *State, f *Frame, instr ssa.Instruction) ctl {
	switch in := instr.(type) {
	case *ssa.DebugRef:
		f.IP++
	case *ssa.Alloc:
		et := in.Type().(*types.Pointer).Elem()
		p := ex.alloc(st, et, in.Comment, ex.zero(et))
		ex.setReg(f, in, p)
		f.IP++
	case *ssa.BinOp:
		ex.setReg(f, in, ex.binop(st, in.Op, ex.get(st, f, in.X), ex.get(st, f, in.Y), in.X.Type()))
		f.IP++
	case *ssa.UnOp:
		return ex.unop(st, f, in)
	case *ssa.Store:
		p := ex.get(st, f, in.Addr).(Ptr)
		ex.store(st, p, ex.get(st, f, in.Val))
		f.IP++
	case *ssa.FieldAddr:
		p := ex.get(st, f, in.X).(Ptr)
		if p.Obj == nil {
			ex.goPanic(st, fmt.Sprintf("nil pointer dereference (field %d of %s)", in.Field, in.X.Type()))
		}
		ex.setReg(f, in, Ptr{p.Obj, pathAppend(p.Path, 'f', in.Field)})
		f.IP++
	case *ssa.Field:
		s := ex.get(st, f, in.X).(*StructV)
		ex.setReg(f, in, s.Fields[in.Field])
		f.IP++
	case *ssa.IndexAddr:
		ex.indexAddr(st, f, in)
		f.IP++
	case *ssa.Index:
		ex.index(st, f, in)
		f.IP++
	case *ssa.Phi:
		// handled on block entry
		f.IP++
	case *ssa.Jump:
		ex.enterBlock(st, f, in.Block().Succs[0])
	case *ssa.If:
		c := ex.get(st, f, in.Cond).(*smt.Term)
		if ex.branch(st, c) {
			ex.enterBlock(st, f, in.Block().Succs[0])
		} else {
			ex.enterBlock(st, f, in.Block().Succs[1])
		}
	case *ssa.Return:
		return ex.doReturn(st, f, in)
	case *ssa.RunDefers:
		return ex.runDefers(st, f)
	case *ssa.Defer:
		d := ex.prepareCall(st, f, &in.Call)
		f.Defers = append(f.Defers, d)
		f.IP++
	case *ssa.Go:
		t := st.th()
		if t.YieldDone {
			// resumed after letting the new goroutine run first
			t.YieldDone = false
			f.IP++
			break
		}
		first := false
		if st.GoOrder && st.GoForks < 3 {
			// which of the two runs first is the scheduler's choice: fork on it (decision before any effect)
			ch := smt.Var(fmt.Sprintf("nd%d_%s", len(st.ND), "gofirst"), smt.Bool)
			first = ex.branch(st, ch)
			st.ND = append(st.ND[:len(st.ND):len(st.ND)], NDRec{Kind: "ext-bool", Tag: "new goroutine runs first", T: ch})
			st.GoForks++
		}
		d := ex.prepareCall(st, f, &in.Call)
		ex.spawn(st, d)
		if first {
			t.BlockWhy = "yield"
			t.BlockKind = "yield"
			return cBlock
		}
		f.IP++
	case *ssa.Call:
		d := ex.prepareCall(st, f, &in.Call)
		return ex.doCall(st, f, d, in, true)
	case *ssa.MakeInterface:
		ex.setReg(f, in, IfaceV{T: in.X.Type(), V: ex.get(st, f, in.X)})
		f.IP++
	case *ssa.ChangeInterface:
		ex.setReg(f, in, ex.get(st, f, in.X))
		f.IP++
	case *ssa.ChangeType:
		ex.setReg(f, in, ex.get(st, f, in.X))
		f.IP++
	case *ssa.Convert:
		ex.setReg(f, in, ex.convert(st, ex.get(st, f, in.X), in.X.Type(), in.Type()))
		f.IP++
	case *ssa.TypeAssert:
		ex.typeAssert(st, f, in)
		f.IP++
	case *ssa.Extract:
		t := ex.get(st, f, in.Tuple).(TupleV)
		ex.setReg(f, in, t[in.Index])
		f.IP++
	case *ssa.MakeClosure:
		fn := in.Fn.(*ssa.Function)
		env := make([]Val, len(in.Bindings))
		for i, b := range in.Bindings {
			env[i] = ex.get(st, f, b)
		}
		ex.setReg(f, in, FuncV{Fn: fn, Env: env})
		f.IP++
	case *ssa.MakeMap:
		o := ex.newObj(in.Type(), "map")
		st.Heap[o] = &MapData{}
		ex.setReg(f, in, MapV{o})
		f.IP++
	case *ssa.MakeSlice:
		n, ok := ex.get(st, f, in.Len).(*smt.Term).Int64()
		c, ok2 := ex.get(st, f, in.Cap).(*smt.Term).Int64()
		if !ok || !ok2 {
			ex.abort("MakeSlice with symbolic length")
		}
		et := in.Type().Underlying().(*types.Slice).Elem()
		es := make([]Val, c)
		for i := range es {
			es[i] = ex.zero(et)
		}
		o := ex.newObj(types.NewArray(et, c), "makeslice")
		st.Heap[o] = &ArrayV{es}
		ex.setReg(f, in, SliceV{Arr: o, Off: 0, Len: int(n), Cap: int(c)})
		f.IP++
	case *ssa.MakeChan:
		n, ok := ex.get(st, f, in.Size).(*smt.Term).Int64()
		if !ok {
			ex.abort("MakeChan with symbolic size")
		}
		if n < 0 {
			ex.goPanic(st, "makechan: size out of range")
		}
		o := ex.newObj(in.Type(), "chan")
		st.Heap[o] = &ChanData{Cap: int(n)}
		ex.setReg(f, in, ChanV{o})
		f.IP++
	case *ssa.Slice:
		ex.sliceOp(st, f, in)
		f.IP++
	case *ssa.Lookup:
		ex.lookup(st, f, in)
		f.IP++
	case *ssa.MapUpdate:
		ex.mapUpdate(st, f, in)
		f.IP++
	case *ssa.Range:
		ex.rangeOp(st, f, in)
		f.IP++
	case *ssa.Next:
		ex.nextOp(st, f, in)
		f.IP++
	case *ssa.Panic:
		v := ex.get(st, f, in.X)
		ex.goPanic(st, "explicit panic: "+showVal(v))
	case *ssa.Send:
		return ex.chanSend(st, f, in)
	case *ssa.Select:
		return ex.selectOp(st, f, in)
	default:
		ex.abort("unsupported instruction %T: %s", instr, instr)
	}
	return cNext
}

func (ex *Executor) enterBlock(st *State, f *Frame, b *ssa.BasicBlock) {
	prev := f.Block
	f.Visits[b.Index]++
	if f.Visits[b.Index] > ex.LoopCap {
		panic(endPath{"unwind", fmt.Sprintf("loop bound %d exceeded in %s block %d", ex.LoopCap, f.Fn, b.Index)})
	}
	// evaluate phis simultaneously
	var idx int = -1
	for i, p := range b.Preds {
		if p == prev {
			idx = i
			break
		}
	}
	var vals []Val
	var phis []*ssa.Phi
	for _, in := range b.Instrs {
		phi, ok := in.(*ssa.Phi)
		if !ok {
			break
		}
		phis = append(phis, phi)
		vals = append(vals, ex.get(st, f, phi.Edges[idx]))
	}
	for i, phi := range phis {
		f.Regs[phi] = vals[i]
	}
	f.Prev = prev
	f.Block = b
	f.IP = len(phis)
}

func (ex *Executor) doReturn(st *State, f *Frame, in *ssa.Return) ctl {
	var res Val
	switch len(in.Results) {
	case 0:
	case 1:
		res = ex.get(st, f, in.Results[0])
	default:
		tv := make(TupleV, len(in.Results))
		for i, r := range in.Results {
			tv[i] = ex.get(st, f, r)
		}
		res = tv
	}
	return ex.popFrame(st, res)
}

func (ex *Executor) popFrame(st *State, res Val) ctl {
	t := st.th()
	f := t.Frames[len(t.Frames)-1]
	t.Frames = t.Frames[:len(t.Frames)-1]
	if f.OnReturn != nil {
		f.OnReturn(st, res)
	}
	if len(t.Frames) == 0 {
		t.Status = Done
		if len(t.Locks) > 0 && t.ID == 0 {
			// main harness thread ended with locks held: not necessarily wrong, note it
			st.note("thread0 ended holding %s", renderLocks(t.Locks))
		}
		return cSwitch
	}
	caller := t.Frames[len(t.Frames)-1]
	if caller.InDefers {
		caller.InDefers = false
		// re-enter RunDefers (IP unchanged)
		return cNext
	}
	if f.Dest != nil {
		caller.Regs[f.Dest] = res
	}
	caller.IP++
	return cNext
}

func (ex *Executor) runDefers(st *State, f *Frame) ctl {
	if len(f.Defers) == 0 {
		f.IP++
		return cNext
	}
	d := f.Defers[len(f.Defers)-1]
	// A deferred call to an engine intrinsic completes synchronously (or blocks / yields): the frame is only
	// changed once it has happened, because a fork inside the intrinsic re-executes this instruction.
	synchronous := d.Fn.Intr != ""
	if d.Fn.Fn != nil {
		fn := d.Fn.Fn
		if ov, ok := ex.Overrides[fn.String()]; ok {
			fn = ov
		}
		if _, ok := ex.findIntrinsic(fn); ok {
			synchronous = true
		}
	}
	if synchronous {
		c := ex.doCall(st, f, d, nil, false)
		if c == cBlock || c == cSwitch {
			return c
		}
		f.Defers = f.Defers[:len(f.Defers)-1]
		return c
	}
	f.Defers = f.Defers[:len(f.Defers)-1]
	f.InDefers = true
	return ex.doCall(st, f, d, nil, false)
}

// prepareCall resolves callee and evaluates arguments.
func (ex *Executor) prepareCall(st *State, f *Frame, c *ssa.CallCommon) deferred {
	var args []Val
	if c.IsInvoke() {
		recv := ex.get(st, f, c.Value)
		iv, ok := recv.(IfaceV)
		if !ok {
			ex.abort("invoke on non-interface %T", recv)
		}
		if iv.T == nil {
			ex.goPanic(st, "nil interface method call "+c.Method.Name())
		}
		fn := ex.lookupMethod(iv.T, c.Method)
		if fn == nil {
			ex.abort("no method %s on %s", c.Method.Name(), iv.T)
		}
		args = append(args, iv.V)
		for _, a := range c.Args {
			args = append(args, ex.get(st, f, a))
		}
		return deferred{Fn: FuncV{Fn: fn}, Args: args}
	}
	fv := ex.get(st, f, c.Value)
	fn, ok := fv.(FuncV)
	if !ok {
		ex.abort("call of non-function %T", fv)
	}
	for _, a := range c.Args {
		args = append(args, ex.get(st, f, a))
	}
	return deferred{Fn: fn, Args: args}
}

func (ex *Executor) lookupMethod(t types.Type, m *types.Func) *ssa.Function {
	ms := ex.Prog.MethodSets.MethodSet(t)
	sel := ms.Lookup(m.Pkg(), m.Name())
	if sel == nil {
		return nil
	}
	return ex.Prog.MethodValue(sel)
}

// doCall performs the call; dest is the instruction receiving the result (may be nil).
// advance: whether to advance the caller's IP when the call completes synchronously.
func (ex *Executor) doCall(st *State, f *Frame, d deferred, dest ssa.Value, advance bool) ctl {
	fv := d.Fn
	if fv.IsNil() {
		ex.goPanic(st, "call of nil function")
	}
	if fv.Intr != "" {
		res := ex.builtin(st, f, fv.Intr, d.Args, dest)
		if dest != nil {
			f.Regs[dest] = res
		}
		if advance {
			f.IP++
		}
		return cNext
	}
	fn := fv.Fn
	name := fn.String()
	if ex.initSkip != nil && ex.initSkip(fn) {
		if advance {
			f.IP++
		}
		return cNext
	}
	if ov, ok := ex.Overrides[name]; ok {
		fn = ov
		name = fn.String()
	}
	if intr, ok := ex.findIntrinsic(fn); ok {
		ex.Stats.Intrinsics[name]++
		// sync primitives are atomic by contract: their internal state is not part of the access log
		saveLog := st.LogOn
		if strings.HasPrefix(name, "(*sync.") {
			st.LogOn = false
		}
		res, c := intr(ex, st, &CallCtx{Frame: f, Dest: dest, Fn: fn, Advance: advance}, d.Args)
		if strings.HasPrefix(name, "(*sync.") {
			st.LogOn = saveLog
		}
		switch c {
		case cNext:
			if dest != nil {
				f.Regs[dest] = res
			}
			if advance {
				f.IP++
			}
			return cNext
		default:
			// cBlock: the goroutine must retry this call later; cSwitch: another goroutine was given the processor
			return c
		}
	}
	if rd, ok := ex.Redir[name]; ok {
		fn = rd
	}
	if fn.Blocks == nil {
		ex.abort("external function without model: %s", name)
	}
	ex.pushFrame(st, st.th(), fn, d.Args, fv.Env, dest)
	return cNext
}

func (ex *Executor) spawn(st *State, d deferred) {
	t := &Thread{ID: st.nextTid, Locks: map[string]byte{}, Region: st.th().Region, Parent: st.th().ID}
	st.nextTid++
	fn := d.Fn.Fn
	if fn == nil || fn.Blocks == nil {
		ex.abort("go statement on function without body")
	}
	if ov, ok := ex.Overrides[fn.String()]; ok {
		fn = ov
	}
	ex.pushFrame(st, t, fn, d.Args, d.Fn.Env, nil)
	// everything passed to the goroutine becomes shared
	if st.LogOn {
		for _, a := range d.Args {
			ex.markShared(st, a)
		}
		for _, a := range d.Fn.Env {
			ex.markShared(st, a)
		}
	}
	st.Threads = append(st.Threads, t)
}

// ---------- operators ----------

// strLess: lexicographic order. Decided on literals; on symbolic text an uninterpreted strict total order (irreflexive,
// asymmetric, total on distinct strings; transitivity is not axiomatised). Counterexamples that hinge on the order of
// symbolic strings may not replay (the decoded strings have their own order) and are then reported as inconclusive.
func (ex *Executor) strLess(st *State, a, b *smt.Term) *smt.Term {
	if a.IsConst() && b.IsConst() {
		return smt.BoolC(a.S < b.S)
	}
	lt, gt := smt.App("uf_strlt", smt.Bool, a, b), smt.App("uf_strlt", smt.Bool, b, a)
	eq := smt.Eq(a, b)
	st.addPC(smt.Not(smt.And(lt, gt)))
	st.addPC(smt.Implies(eq, smt.And(smt.Not(lt), smt.Not(gt))))
	st.addPC(smt.Implies(smt.Not(eq), smt.Or(lt, gt)))
	return lt
}

type bigInt = bigIntT

func (ex *Executor) binop(st *State, op token.Token, x, y Val, xt types.Type) Val {
	switch op {
	case token.EQL:
		return ex.valEq(x, y)
	case token.NEQ:
		return smt.Not(ex.valEq(x, y))
	}
	a, ok1 := x.(*smt.Term)
	b, ok2 := y.(*smt.Term)
	if !ok1 || !ok2 {
		ex.abort("binop %s on %T,%T", op, x, y)
	}
	switch op {
	case token.ADD:
		if a.Sort == smt.String {
			return smt.Concat(a, b)
		}
		return ex.arith(st, smt.Add(a, b), xt)
	case token.SUB:
		return ex.arith(st, smt.Sub(a, b), xt)
	case token.MUL:
		if !a.IsConst() && !b.IsConst() {
			ex.abort("symbolic*symbolic multiplication")
		}
		return ex.arith(st, smt.Mul(a, b), xt)
	case token.QUO:
		if b.IsConst() && b.I.Sign() == 0 {
			ex.goPanic(st, "division by zero")
		}
		if a.IsConst() && b.IsConst() {
			return smt.Div(a, b)
		}
		ex.abort("symbolic division")
	case token.REM:
		if a.IsConst() && b.IsConst() && b.I.Sign() != 0 {
			return smt.Mod(a, b)
		}
		ex.abort("symbolic remainder")
	case token.LSS:
		if a.Sort == smt.String {
			return ex.strLess(st, a, b)
		}
		return smt.Lt(a, b)
	case token.LEQ:
		if a.Sort == smt.String {
			return smt.Not(ex.strLess(st, b, a))
		}
		return smt.Le(a, b)
	case token.GTR:
		if a.Sort == smt.String {
			return ex.strLess(st, b, a)
		}
		return smt.Gt(a, b)
	case token.GEQ:
		if a.Sort == smt.String {
			return smt.Not(ex.strLess(st, a, b))
		}
		return smt.Ge(a, b)
	case token.AND, token.OR, token.XOR, token.SHL, token.SHR, token.AND_NOT:
		ai, ok1 := a.Int64()
		bi, ok2 := b.Int64()
		if ok1 && ok2 {
			switch op {
			case token.AND:
				return smt.IntC(ai & bi)
			case token.OR:
				return smt.IntC(ai | bi)
			case token.XOR:
				return smt.IntC(ai ^ bi)
			case token.SHL:
				return smt.IntC(ai << uint(bi))
			case token.SHR:
				return smt.IntC(ai >> uint(bi))
			case token.AND_NOT:
				return smt.IntC(ai &^ bi)
			}
		}
		if a.Sort == smt.Bool {
			switch op {
			case token.AND:
				return smt.And(a, b)
			case token.OR:
				return smt.Or(a, b)
			}
		}
		// flag words: x & const on symbolic flags modelled via uninterpreted function
		return smt.App("bitop_"+op.String(), smt.Int, a, b)
	}
	ex.abort("unsupported binop %s", op)
	return nil
}

// arith applies the machine-integer range of the type: a symbolic result that may leave the range
// is recorded (overflow is outside the claim; see DESIGN) — constants are wrapped exactly.
func (ex *Executor) arith(st *State, r *smt.Term, t types.Type) Val {
	if r.IsConst() {
		if b, ok := t.Underlying().(*types.Basic); ok && b.Info()&types.IsInteger != 0 {
			return smt.BigC(wrapInt(r.I, b.Kind()))
		}
	}
	return r
}

func (ex *Executor) unop(st *State, f *Frame, in *ssa.UnOp) ctl {
	x := ex.get(st, f, in.X)
	switch in.Op {
	case token.MUL: // load
		if br, ok := x.(byteRefV); ok {
			// one byte of opaque text: an uninterpreted function of text and position, within byte range
			if i, ok := br.Idx.Int64(); ok && br.S.IsConst() && int(i) < len(br.S.S) {
				ex.setReg(f, in, smt.IntC(int64(br.S.S[i])))
				break
			}
			b := smt.App("uf_byteat", smt.Int, br.S, br.Idx)
			st.addPC(smt.Ge(b, smt.IntC(0)))
			st.addPC(smt.Le(b, smt.IntC(255)))
			ex.setReg(f, in, b)
			break
		}
		p, ok := x.(Ptr)
		if !ok {
			ex.abort("deref of %T", x)
		}
		ex.setReg(f, in, ex.load(st, p))
	case token.NOT:
		ex.setReg(f, in, smt.Not(x.(*smt.Term)))
	case token.SUB:
		ex.setReg(f, in, smt.Neg(x.(*smt.Term)))
	case token.ARROW:
		return ex.chanRecv(st, f, in, x.(ChanV))
	case token.XOR:
		if v, ok := x.(*smt.Term).Int64(); ok {
			ex.setReg(f, in, smt.IntC(^v))
		} else {
			ex.abort("symbolic bitwise complement")
		}
	default:
		ex.abort("unsupported unop %s", in.Op)
	}
	f.IP++
	return cNext
}

func (ex *Executor) convert(st *State, v Val, from, to types.Type) Val {
	fu, tu := from.Underlying(), to.Underlying()
	switch x := v.(type) {
	case *smt.Term:
		if tb, ok := tu.(*types.Basic); ok {
			if tb.Info()&types.IsString != 0 {
				if x.Sort == smt.String {
					return x
				}
				// string(rune/int)
				if n, ok := x.Int64(); ok {
					return smt.StrC(string(rune(n)))
				}
				ex.abort("string(symbolic int)")
			}
			if x.Sort == smt.Int {
				if x.IsConst() && tb.Info()&types.IsInteger != 0 {
					return smt.BigC(wrapInt(x.I, tb.Kind()))
				}
				return x
			}
			return x
		}
		if ts, ok := tu.(*types.Slice); ok && x.Sort == smt.String {
			if b, ok := ts.Elem().Underlying().(*types.Basic); ok && (b.Kind() == types.Byte || b.Kind() == types.Uint8) {
				return BytesV{S: x, Nil: smt.False}
			}
		}
	case BytesV:
		if tb, ok := tu.(*types.Basic); ok && tb.Info()&types.IsString != 0 {
			return ex.bytesContent(st, x)
		}
		return x
	case SliceV:
		if tb, ok := tu.(*types.Basic); ok && tb.Info()&types.IsString != 0 {
			// string([]byte) with concrete elements
			if x.Arr == nil {
				return smt.StrC("")
			}
			arr := st.Heap[x.Arr].(*ArrayV)
			var acc *smt.Term = smt.StrC("")
			for i := 0; i < x.Len; i++ {
				e := arr.Elems[x.Off+i].(*smt.Term)
				n, ok := e.Int64()
				if !ok {
					ex.abort("string([]byte) with symbolic element")
				}
				acc = smt.Concat(acc, smt.StrC(string([]byte{byte(n)})))
			}
			return acc
		}
		return x
	case Ptr:
		return x
	}
	_ = fu
	ex.abort("unsupported conversion %s -> %s (%T)", from, to, v)
	return nil
}

func (ex *Executor) typeAssert(st *State, f *Frame, in *ssa.TypeAssert) {
	x := ex.get(st, f, in.X)
	iv, ok := x.(IfaceV)
	if !ok {
		ex.abort("type assert on %T", x)
	}
	okb := false
	var res Val
	at := in.AssertedType
	if iv.T != nil {
		if it, isI := at.Underlying().(*types.Interface); isI {
			okb = types.Implements(iv.T, it)
			if okb {
				res = iv
			}
		} else {
			okb = types.Identical(iv.T, at)
			if okb {
				res = iv.V
			}
		}
	}
	if in.CommaOk {
		if !okb {
			res = ex.zero(at)
		}
		ex.setReg(f, in, TupleV{res, smt.BoolC(okb)})
		return
	}
	if !okb {
		ex.goPanic(st, fmt.Sprintf("interface conversion: %v is not %s", iv.T, at))
	}
	ex.setReg(f, in, res)
}

// byteRefV is the address of one byte of a slice with opaque content; it can only be read
type byteRefV struct{ S, Idx *smt.Term }

func (ex *Executor) indexAddr(st *State, f *Frame, in *ssa.IndexAddr) {
	x := ex.get(st, f, in.X)
	idx := ex.get(st, f, in.Index).(*smt.Term)
	if b, isB := x.(BytesV); isB {
		content := ex.bytesContent(st, b)
		n := ex.strLen(st, content)
		if !ex.branch(st, smt.And(smt.Ge(idx, smt.IntC(0)), smt.Lt(idx, n))) {
			ex.goPanic(st, "index out of range")
		}
		ex.setReg(f, in, byteRefV{S: content, Idx: idx})
		return
	}
	i, ok := idx.Int64()
	if !ok {
		ex.abort("symbolic index in IndexAddr (%s)", f.Fn)
	}
	switch b := x.(type) {
	case SliceV:
		if i < 0 || int(i) >= b.Len {
			ex.goPanic(st, fmt.Sprintf("index out of range [%d] with length %d", i, b.Len))
		}
		ex.setReg(f, in, Ptr{b.Arr, pathAppend("", 'i', b.Off+int(i))})
	case Ptr: // pointer to array
		if b.Obj == nil {
			ex.goPanic(st, "nil array pointer")
		}
		ex.setReg(f, in, Ptr{b.Obj, pathAppend(b.Path, 'i', int(i))})
	default:
		ex.abort("IndexAddr on %T", x)
	}
}

func (ex *Executor) index(st *State, f *Frame, in *ssa.Index) {
	x := ex.get(st, f, in.X)
	idx := ex.get(st, f, in.Index).(*smt.Term)
	i, ok := idx.Int64()
	if !ok {
		ex.abort("symbolic index")
	}
	switch b := x.(type) {
	case *ArrayV:
		ex.setReg(f, in, b.Elems[i])
	case *smt.Term:
		if b.IsConst() {
			if int(i) >= len(b.S) {
				ex.goPanic(st, "string index out of range")
			}
			ex.setReg(f, in, smt.IntC(int64(b.S[i])))
			return
		}
		ex.abort("index into symbolic string")
	default:
		ex.abort("Index on %T", x)
	}
}

func (ex *Executor) sliceOp(st *State, f *Frame, in *ssa.Slice) {
	x := ex.get(st, f, in.X)
	geti := func(v ssa.Value, def int) int {
		if v == nil {
			return def
		}
		n, ok := ex.get(st, f, v).(*smt.Term).Int64()
		if !ok {
			ex.abort("symbolic slice bound in %s", f.Fn)
		}
		return int(n)
	}
	switch b := x.(type) {
	case SliceV:
		lo := geti(in.Low, 0)
		hi := geti(in.High, b.Len)
		mx := geti(in.Max, b.Cap)
		if lo < 0 || hi < lo || hi > b.Cap || mx > b.Cap || mx < hi {
			ex.goPanic(st, fmt.Sprintf("slice bounds out of range [%d:%d:%d] cap %d", lo, hi, mx, b.Cap))
		}
		if b.Arr == nil {
			ex.setReg(f, in, SliceV{})
			return
		}
		ex.setReg(f, in, SliceV{Arr: b.Arr, Off: b.Off + lo, Len: hi - lo, Cap: mx - lo})
	case Ptr: // *array
		arr := ex.load(st, b).(*ArrayV)
		if b.Path != "" {
			ex.abort("slice of embedded array")
		}
		lo := geti(in.Low, 0)
		hi := geti(in.High, len(arr.Elems))
		ex.setReg(f, in, SliceV{Arr: b.Obj, Off: lo, Len: hi - lo, Cap: len(arr.Elems) - lo})
	case *smt.Term:
		if b.IsConst() {
			lo := geti(in.Low, 0)
			hi := geti(in.High, len(b.S))
			ex.setReg(f, in, smt.StrC(b.S[lo:hi]))
			return
		}
		ex.abort("slice of symbolic string")
	case BytesV:
		if in.Low == nil && in.High == nil {
			ex.setReg(f, in, b)
			return
		}
		ex.abort("slice of symbolic bytes")
	default:
		ex.abort("Slice on %T", x)
	}
}

// ---------- maps ----------

func (ex *Executor) mapData(st *State, m MapV) *MapData {
	if m.Obj == nil {
		return &MapData{}
	}
	return st.Heap[m.Obj].(*MapData)
}

// findEntry forks over which entry (if any) equals key; returns index or -1.
func (ex *Executor) findEntry(st *State, entries []MapEntry, key Val) int {
	if iv, ok := key.(IfaceV); ok && iv.T != nil && !types.Comparable(iv.T) {
		// an interface-typed key is hashed by its dynamic type: the runtime panics on types without equality
		ex.goPanic(st, fmt.Sprintf("runtime error: hash of unhashable type %s", iv.T))
	}
	for i, e := range entries {
		c := ex.valEq(e.K, key)
		if ex.branch(st, c) {
			return i
		}
	}
	return -1
}

func (ex *Executor) lookup(st *State, f *Frame, in *ssa.Lookup) {
	x := ex.get(st, f, in.X)
	key := ex.get(st, f, in.Index)
	switch m := x.(type) {
	case MapV:
		md := ex.mapData(st, m)
		i := ex.findEntry(st, md.Entries, key)
		if m.Obj != nil {
			ex.logAccess(st, Ptr{Obj: m.Obj}, false)
		}
		vt := in.X.Type().Underlying().(*types.Map).Elem()
		var v Val
		if i >= 0 {
			v = md.Entries[i].V
		} else {
			v = ex.zero(vt)
		}
		if in.CommaOk {
			ex.setReg(f, in, TupleV{v, smt.BoolC(i >= 0)})
		} else {
			ex.setReg(f, in, v)
		}
	case *smt.Term: // string index
		idx := key.(*smt.Term)
		if m.IsConst() {
			if i, ok := idx.Int64(); ok {
				if int(i) >= len(m.S) {
					ex.goPanic(st, "string index out of range")
				}
				ex.setReg(f, in, smt.IntC(int64(m.S[i])))
				return
			}
		}
		ex.abort("symbolic string indexing")
	default:
		ex.abort("Lookup on %T", x)
	}
}

func (ex *Executor) mapUpdate(st *State, f *Frame, in *ssa.MapUpdate) {
	m := ex.get(st, f, in.Map).(MapV)
	if m.Obj == nil {
		ex.goPanic(st, "assignment to entry in nil map")
	}
	key := ex.get(st, f, in.Key)
	val := ex.get(st, f, in.Value)
	ex.mapStore(st, m, key, val)
}

func (ex *Executor) mapStore(st *State, m MapV, key, val Val) {
	md := ex.mapData(st, m)
	i := ex.findEntry(st, md.Entries, key)
	ex.logAccess(st, Ptr{Obj: m.Obj}, true)
	if st.LogOn && m.Obj.Shared {
		ex.markShared(st, val)
		ex.markShared(st, key)
	}
	ne := make([]MapEntry, len(md.Entries), len(md.Entries)+1)
	copy(ne, md.Entries)
	if i >= 0 {
		ne[i] = MapEntry{md.Entries[i].K, val}
	} else {
		ne = append(ne, MapEntry{key, val})
	}
	st.dirty = true
	st.Heap[m.Obj] = &MapData{ne}
}

func (ex *Executor) mapDelete(st *State, m MapV, key Val) {
	if m.Obj == nil {
		return
	}
	md := ex.mapData(st, m)
	i := ex.findEntry(st, md.Entries, key)
	ex.logAccess(st, Ptr{Obj: m.Obj}, true)
	if i < 0 {
		return
	}
	ne := make([]MapEntry, 0, len(md.Entries))
	ne = append(ne, md.Entries[:i]...)
	ne = append(ne, md.Entries[i+1:]...)
	st.dirty = true
	st.Heap[m.Obj] = &MapData{ne}
}

func (ex *Executor) rangeOp(st *State, f *Frame, in *ssa.Range) {
	x := ex.get(st, f, in.X)
	switch m := x.(type) {
	case MapV:
		md := ex.mapData(st, m)
		it := &IterV{Map: m}
		for _, e := range md.Entries {
			it.Keys = append(it.Keys, e.K)
			it.Vals = append(it.Vals, e.V)
		}
		if m.Obj != nil {
			ex.logAccess(st, Ptr{Obj: m.Obj}, false)
		}
		if st.MapOrder && len(it.Keys) >= 2 {
			// iteration order of a built-in map is unspecified: fork on one alternative order (the reverse)
			ch := smt.Var(fmt.Sprintf("nd%d_%s", len(st.ND), "maprev"), smt.Bool)
			rev := ex.branch(st, ch)
			st.ND = append(st.ND[:len(st.ND):len(st.ND)], NDRec{Kind: "ext-bool", Tag: "map range reversed", T: ch})
			if rev {
				for i, j := 0, len(it.Keys)-1; i < j; i, j = i+1, j-1 {
					it.Keys[i], it.Keys[j] = it.Keys[j], it.Keys[i]
					it.Vals[i], it.Vals[j] = it.Vals[j], it.Vals[i]
				}
			}
		}
		ex.setReg(f, in, it)
	case *smt.Term:
		if !m.IsConst() {
			ex.abort("range over symbolic string")
		}
		it := &IterV{IsStr: true}
		for i, r := range m.S {
			it.Keys = append(it.Keys, smt.IntC(int64(i)))
			it.Vals = append(it.Vals, smt.IntC(int64(r)))
		}
		ex.setReg(f, in, it)
	default:
		ex.abort("Range on %T", x)
	}
}

func (ex *Executor) nextOp(st *State, f *Frame, in *ssa.Next) {
	it := ex.get(st, f, in.Iter).(*IterV)
	tt := in.Type().(*types.Tuple)
	for it.I < len(it.Keys) {
		i := it.I
		// copy-on-advance: iterators are per-frame values; create a new one to keep states independent
		nit := *it
		nit.I = i + 1
		f.Regs[in.Iter] = &nit
		it = &nit
		k, v := it.Keys[i], it.Vals[i]
		if !it.IsStr && it.Map.Obj != nil {
			// the entry must still be present (identity of key value)
			md := ex.mapData(st, it.Map)
			found := false
			for _, e := range md.Entries {
				if sameVal(e.K, k) {
					v = e.V
					found = true
					break
				}
			}
			if !found {
				continue
			}
		}
		ex.setReg(f, in, TupleV{smt.True, k, v})
		return
	}
	ex.setReg(f, in, TupleV{smt.False, ex.zeroOrNil(tt.At(1).Type()), ex.zeroOrNil(tt.At(2).Type())})
}

func sameVal(a, b Val) bool {
	switch x := a.(type) {
	case *smt.Term:
		y, ok := b.(*smt.Term)
		return ok && x == y
	case Ptr:
		y, ok := b.(Ptr)
		return ok && x == y
	case IfaceV:
		y, ok := b.(IfaceV)
		if !ok {
			return false
		}
		if x.T == nil || y.T == nil {
			return x.T == nil && y.T == nil
		}
		return types.Identical(x.T, y.T) && sameVal(x.V, y.V)
	}
	return false
}

// ---------- builtins ----------

func (ex *Executor) sliceElems(st *State, s SliceV) []Val {
	if s.Arr == nil {
		return nil
	}
	arr := st.Heap[s.Arr].(*ArrayV)
	return arr.Elems[s.Off : s.Off+s.Len]
}

func (ex *Executor) builtin(st *State, f *Frame, name string, args []Val, dest ssa.Value) Val {
	switch name {
	case "builtin:len":
		switch x := args[0].(type) {
		case SliceV:
			return smt.IntC(int64(x.Len))
		case *smt.Term:
			return ex.strLen(st, x)
		case MapV:
			if x.Obj != nil {
				ex.logAccess(st, Ptr{Obj: x.Obj}, false)
			}
			return smt.IntC(int64(len(ex.mapData(st, x).Entries)))
		case BytesV:
			return smt.Ite(x.Nil, smt.IntC(0), ex.strLen(st, x.S))
		case ChanV:
			if x.Obj == nil {
				return smt.IntC(0)
			}
			return smt.IntC(int64(len(st.Heap[x.Obj].(*ChanData).Buf)))
		case *ArrayV:
			return smt.IntC(int64(len(x.Elems)))
		case Ptr:
			return smt.IntC(int64(len(ex.load(st, x).(*ArrayV).Elems)))
		}
	case "builtin:cap":
		switch x := args[0].(type) {
		case SliceV:
			return smt.IntC(int64(x.Cap))
		}
	case "builtin:append":
		return ex.appendOp(st, args[0], args[1], dest)
	case "builtin:copy":
		dst, ok1 := args[0].(SliceV)
		src, ok2 := args[1].(SliceV)
		if ok1 && ok2 {
			n := dst.Len
			if src.Len < n {
				n = src.Len
			}
			se := ex.sliceElems(st, src)
			for i := 0; i < n; i++ {
				ex.store(st, Ptr{dst.Arr, pathAppend("", 'i', dst.Off+i)}, se[i])
			}
			return smt.IntC(int64(n))
		}
	case "builtin:delete":
		ex.mapDelete(st, args[0].(MapV), args[1])
		return nil
	case "builtin:clear":
		switch x := args[0].(type) {
		case MapV:
			if x.Obj != nil {
				ex.logAccess(st, Ptr{Obj: x.Obj}, true)
				st.dirty = true
				st.Heap[x.Obj] = &MapData{}
			}
			return nil
		case SliceV:
			var et types.Type
			if x.Arr != nil {
				et = x.Arr.Typ.(*types.Array).Elem()
				for i := 0; i < x.Len; i++ {
					ex.store(st, Ptr{x.Arr, pathAppend("", 'i', x.Off+i)}, ex.zero(et))
				}
			}
			return nil
		}
	case "builtin:close":
		ex.chanClose(st, args[0].(ChanV))
		return nil
	case "builtin:panic":
		ex.goPanic(st, "panic: "+showVal(args[0]))
	case "builtin:recover":
		return IfaceV{}
	case "builtin:print", "builtin:println":
		return nil
	case "builtin:min", "builtin:max":
		a, b := args[0].(*smt.Term), args[1].(*smt.Term)
		if name == "builtin:min" {
			return smt.Ite(smt.Le(a, b), a, b)
		}
		return smt.Ite(smt.Le(a, b), b, a)
	}
	ex.abort("unsupported builtin %s on %T", name, args[0])
	return nil
}

func (ex *Executor) appendOp(st *State, a0, a1 Val, dest ssa.Value) Val {
	if b, ok := a0.(BytesV); ok {
		switch y := a1.(type) {
		case BytesV:
			return BytesV{S: smt.Concat(b.S, y.S), Nil: smt.And(b.Nil, y.Nil)}
		case *smt.Term:
			return BytesV{S: smt.Concat(b.S, y), Nil: smt.False}
		case SliceV:
			t, _ := ex.bytesTerm(st, y)
			return BytesV{S: smt.Concat(ex.bytesContent(st, b), t), Nil: smt.And(b.Nil, smt.BoolC(y.Arr == nil || y.Len == 0))}
		}
	}
	s, ok := a0.(SliceV)
	if !ok {
		ex.abort("append to %T", a0)
	}
	var add []Val
	switch y := a1.(type) {
	case SliceV:
		add = append(add, ex.sliceElems(st, y)...)
	case BytesV:
		if s.Len == 0 {
			return y
		}
		ex.abort("append symbolic bytes to concrete slice")
	case *smt.Term:
		if s.Len == 0 && !y.IsConst() {
			return BytesV{S: y, Nil: smt.False}
		}
		if y.IsConst() {
			for _, c := range []byte(y.S) {
				add = append(add, smt.IntC(int64(c)))
			}
		} else {
			ex.abort("append symbolic string to non-empty slice")
		}
	default:
		ex.abort("append of %T", a1)
	}
	if len(add) == 0 {
		return s
	}
	if s.Arr != nil && s.Len+len(add) <= s.Cap {
		for i, v := range add {
			ex.store(st, Ptr{s.Arr, pathAppend("", 'i', s.Off+s.Len+i)}, v)
		}
		return SliceV{Arr: s.Arr, Off: s.Off, Len: s.Len + len(add), Cap: s.Cap}
	}
	// grow: new backing array, capacity = exact new length (Go over-allocates; aliasing after growth is not relied upon)
	old := ex.sliceElems(st, s)
	n := len(old) + len(add)
	es := make([]Val, n)
	copy(es, old)
	copy(es[len(old):], add)
	var et types.Type
	if dest != nil {
		et = dest.Type().Underlying().(*types.Slice).Elem()
	}
	o := ex.newObj(types.NewArray(et, int64(n)), "append")
	if s.Arr != nil && s.Arr.Shared && st.LogOn {
		// growth of a shared slice: the new array is only reachable through the header store, which is logged
	}
	st.Heap[o] = &ArrayV{es}
	return SliceV{Arr: o, Off: 0, Len: n, Cap: n}
}

// SetupRedirects maps library functions onto model functions written in Go inside the harness package.
func (ex *Executor) SetupRedirects(pkg *ssa.Package) {
	m := map[string]string{
		"(*sync.Map).Range": "verifModelSyncMapRange",
		"(*sync.Once).Do":   "verifModelOnceDo",
		"errors.Is":         "verifModelErrorsIs",
		"context.Cause":     "verifModelContextCause",
		"sort.SliceStable":  "verifModelSliceStable",
		"fmt.Fprintf":       "verifModelFprintf",
		"sort.SearchStrings": "verifModelSearchStrings",
		"sort.Slice":        "verifModelSliceStable",
		"(*bytes.Reader).WriteTo": "verifModelReaderWriteTo",
		"os.Stat":                 "verifModelStat",
		"(*os.File).Stat":         "verifModelFStat",
		"(*sync.Pool).Get":        "verifModelPoolGet",
		"(*sync.Pool).Put":        "verifModelPoolPut",
	}
	for k, v := range m {
		if f := pkg.Func(v); f != nil {
			ex.Redir[k] = f
		}
	}
}

// RunInit executes the package initialisers of the package under test (and of the repository's own packages it
// imports) concretely, producing the base heap with initialised package-level variables.
func (ex *Executor) RunInit(pkg *ssa.Package) {
	initFn := pkg.Func("init")
	if initFn == nil {
		return
	}
	mod := "github.com/hashicorp/eventlogger"
	ex.Intr["@init"] = nil
	st := &State{Heap: map[*Obj]Val{}, pcSet: map[int]bool{}, Ghost: map[string]Val{}}
	th := &Thread{ID: 0, Locks: map[string]byte{}}
	st.Threads = []*Thread{th}
	st.nextTid = 1
	ex.initSkip = func(fn *ssa.Function) bool {
		if fn.Name() != "init" || fn.Pkg == nil {
			return false
		}
		p := fn.Pkg.Pkg.Path()
		return !(p == pkg.Pkg.Path() || strings.HasPrefix(p, mod) || p == "github.com/hashicorp/go-multierror")
	}
	ex.pushFrame(st, th, initFn, nil, nil, nil)
	saveEnds, saveStats := ex.Ends, ex.Stats
	var final *State
	ex.OnPathEnd = func(s *State, kind string) {
		if kind == "ok" {
			final = s
		} else {
			ex.AbortMsgs = append(ex.AbortMsgs, "package init ended with "+kind)
		}
	}
	ex.runPath(st)
	ex.OnPathEnd = nil
	ex.initSkip = nil
	ex.Ends = saveEnds
	funcs := ex.Stats.Funcs
	ex.Stats = saveStats
	ex.Stats.Funcs = map[string]bool{}
	_ = funcs
	if final != nil {
		for o, v := range final.Heap {
			o.Shared = true
			ex.BaseHeap[o] = v
		}
	}
	ex.work = nil
}

func (ex *Executor) zeroOrNil(t types.Type) Val {
	if b, ok := t.(*types.Basic); ok && b.Kind() == types.Invalid {
		return nil
	}
	return ex.zero(t)
}

// strLen returns len(x) and records the facts that tie the (uninterpreted) length to emptiness.
func (ex *Executor) strLen(st *State, x *smt.Term) *smt.Term {
	l := smt.StrLen(x)
	if !l.IsConst() {
		st.Ghost["witness.skip"] = smt.True // model string lengths cannot be honoured when decoding a witness
		st.addPC(smt.Ge(l, smt.IntC(0)))
		st.addPC(smt.Eq(smt.Eq(l, smt.IntC(0)), smt.Eq(x, smt.StrC(""))))
	}
	return l
}
