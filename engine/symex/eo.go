package symex

// Thread-automaton extraction for the event-order (EO) encoding of schedules (DESIGN §4).
// One goroutine at a time is executed symbolically in an open environment: at every *visible operation*
// (go, channel send/recv/select/close, WaitGroup Add/Done/Wait, harness events, ctx observations) the current
// segment ends; one edge per possible outcome is emitted; states are join-merged on their thread-local content.

import (
	"fmt"
	"go/token"
	"go/types"
	"sort"
	"strings"

	"verif/engine/smt"

	"golang.org/x/tools/go/ssa"
)

type AutArm struct {
	Kind string `json:"kind"` // send recv ctxdone default
	Ch   int    `json:"ch"`
}

type AutEdge struct {
	ID     int    `json:"id"`
	Thread int    `json:"thread"`
	Src    int    `json:"src"`
	Dst    int    `json:"dst"`
	Kind   string `json:"kind"` // start spawn send recv recvclosed ctxdone default close add done wait ev ret ctxerr-nil ctxerr-set panic
	Ch     int    `json:"ch,omitempty"`
	Delta  int    `json:"delta,omitempty"`
	Child  int    `json:"child,omitempty"`
	Label  string `json:"label,omitempty"`
	Guard  string `json:"guard,omitempty"`
	Pos    string `json:"pos,omitempty"`
}

type AutNode struct {
	ID     int      `json:"id"`
	Thread int      `json:"thread"`
	Final  bool     `json:"final,omitempty"`
	Cutoff bool     `json:"cutoff,omitempty"`
	Panic  string   `json:"panic,omitempty"`
	Op     string   `json:"op,omitempty"` // kind of visible op at this node
	Arms   []AutArm `json:"arms,omitempty"`
	Ch     int      `json:"ch,omitempty"`
	Label  string   `json:"label,omitempty"`
	Pos    string   `json:"pos,omitempty"`
}

type AutThread struct {
	ID     int    `json:"id"`
	Fn     string `json:"fn"`
	Root   int    `json:"root"`
	Parent int    `json:"parent"`
	Spawn  int    `json:"spawn_edge"` // edge id that starts this thread (-1 for the main thread)
}

type EOResult struct {
	Threads []*AutThread   `json:"threads"`
	Nodes   []*AutNode     `json:"nodes"`
	Edges   []*AutEdge     `json:"edges"`
	CtxDone []int          `json:"ctx_done_chans"`
	Funcs   []string       `json:"funcs"`
	Aborts  []string       `json:"aborts"`
	Decls   map[string]string `json:"decls"`
	Chans   map[string]int    `json:"chans"` // channel object id -> capacity
}

type eoProto struct {
	Kind  string
	Ch    int
	Delta int
	Child int
	Label string
	Pos   string
}

type eoCtx struct {
	res      *EOResult
	keys     map[string]int // thread:key -> node id
	ctxDone  map[int]bool
	pending  []eoSpawn
	cap      int
	baseLen  int
}

type eoSpawn struct {
	thread int
	st     *State
}

// fields added to State for EO mode are kept in Ghost: "eo.src" (int node id), "eo.proto" (*eoProto), "eo.thread" (int)

func (ex *Executor) ExtractEO(fn *ssa.Function, unrollCap int) *EOResult {
	eo := &eoCtx{res: &EOResult{Decls: map[string]string{}, Chans: map[string]int{}}, keys: map[string]int{}, ctxDone: map[int]bool{}, cap: unrollCap}
	ex.eo = eo
	st := &State{Heap: map[*Obj]Val{}, pcSet: map[int]bool{}, Ghost: map[string]Val{}}
	for k, v := range ex.BaseHeap {
		st.Heap[k] = v
	}
	th := &Thread{ID: 0, Locks: map[string]byte{}}
	st.Threads = []*Thread{th}
	st.nextTid = 1
	ex.pushFrame(st, th, fn, nil, nil, nil)
	t0 := &AutThread{ID: 0, Fn: fn.String(), Parent: -1, Spawn: -1}
	eo.res.Threads = append(eo.res.Threads, t0)
	st.Ghost["eo.thread"] = 0
	st.Ghost["eo.src"] = -1
	st.Ghost["eo.proto"] = &eoProto{Kind: "start"}
	st.Ghost["eo.visits"] = map[string]int{}
	eo.pending = append(eo.pending, eoSpawn{0, st})
	for len(eo.pending) > 0 {
		sp := eo.pending[0]
		eo.pending = eo.pending[1:]
		ex.work = []*State{sp.st}
		for len(ex.work) > 0 {
			s := ex.work[len(ex.work)-1]
			ex.work = ex.work[:len(ex.work)-1]
			ex.eoRunSegment(s)
		}
	}
	for f := range ex.Stats.Funcs {
		eo.res.Funcs = append(eo.res.Funcs, f)
	}
	sort.Strings(eo.res.Funcs)
	eo.res.Aborts = ex.AbortMsgs
	for c := range eo.ctxDone {
		eo.res.CtxDone = append(eo.res.CtxDone, c)
	}
	for name, s := range smt.Vars {
		eo.res.Decls[name] = s.String()
	}
	return eo.res
}

func (eo *eoCtx) newNode(thread int) *AutNode {
	n := &AutNode{ID: len(eo.res.Nodes), Thread: thread}
	eo.res.Nodes = append(eo.res.Nodes, n)
	return n
}

func (ex *Executor) eoAddEdge(st *State, dst int) {
	eo := ex.eo
	p := st.Ghost["eo.proto"].(*eoProto)
	src := st.Ghost["eo.src"].(int)
	th := st.Ghost["eo.thread"].(int)
	g := smt.And(st.PC...)
	e := &AutEdge{ID: len(eo.res.Edges), Thread: th, Src: src, Dst: dst, Kind: p.Kind, Ch: p.Ch, Delta: p.Delta, Child: p.Child, Label: p.Label, Pos: p.Pos}
	if !g.IsTrue() {
		e.Guard = g.String()
	}
	eo.res.Edges = append(eo.res.Edges, e)
	if src == -1 {
		eo.res.Threads[th].Root = dst
	}
}

// eoRunSegment runs one state until the next visible operation (or thread end), then records the edge.
func (ex *Executor) eoRunSegment(st *State) {
	eo := ex.eo
	th := st.Ghost["eo.thread"].(int)
	defer func() {
		if r := recover(); r != nil {
			switch e := r.(type) {
			case abortPath:
				ex.AbortMsgs = append(ex.AbortMsgs, "abort: "+e.msg+" @ "+ex.curPos(st))
				ex.Stats.Aborts++
			case endPath:
				if e.kind == "infeasible" {
					return
				}
				// a thread-local panic: edge into a panic node
				n := eo.newNode(th)
				n.Final = true
				n.Panic = e.kind + ": " + e.msg + " @ " + ex.curPos(st)
				ex.eoAddEdge(st, n.ID)
			default:
				panic(r)
			}
		}
	}()
	for {
		t := st.th()
		if len(t.Frames) == 0 {
			// thread end
			key := fmt.Sprintf("%d:final", th)
			id, ok := eo.keys[key]
			if !ok {
				n := eo.newNode(th)
				n.Final = true
				id = n.ID
				eo.keys[key] = id
			}
			ex.eoAddEdge(st, id)
			return
		}
		st.Steps++
		if st.Steps > ex.MaxSteps {
			ex.abort("max steps in EO extraction")
		}
		f := st.fr()
		instr := f.Block.Instrs[f.IP]
		st.dirty = false
		if op := ex.eoVisible(st, f, instr); op != nil {
			ex.eoAtVisible(st, f, instr, op)
			return
		}
		c := ex.exec(st, f, instr)
		if c == cEnd {
			return
		}
		if c == cBlock {
			ex.abort("blocking operation outside the visible-op model: %s", instr)
		}
	}
}

type eoOp struct {
	kind    string // go send recv select close add done wait ev ret ctxerr
	arms    []AutArm
	ch      int
	delta   int
	label   string
	nOut    int
	blocking bool
	deferred bool
}

func chanID(v Val) int {
	c, ok := v.(ChanV)
	if !ok || c.Obj == nil {
		return 0
	}
	return c.Obj.ID
}

// eoVisible classifies the instruction about to execute.
func (ex *Executor) eoVisible(st *State, f *Frame, instr ssa.Instruction) *eoOp {
	eo := ex.eo
	armKind := func(ch int, send bool) string {
		if eo.ctxDone[ch] {
			return "ctxdone"
		}
		if send {
			return "send"
		}
		return "recv"
	}
	switch in := instr.(type) {
	case *ssa.Go:
		return &eoOp{kind: "go"}
	case *ssa.Send:
		ch := chanID(ex.get(st, f, in.Chan))
		return &eoOp{kind: "select", blocking: true, arms: []AutArm{{Kind: "send", Ch: ch}}}
	case *ssa.UnOp:
		if in.Op == token.ARROW {
			ch := chanID(ex.get(st, f, in.X))
			return &eoOp{kind: "select", blocking: true, arms: []AutArm{{Kind: armKind(ch, false), Ch: ch}}}
		}
	case *ssa.Select:
		op := &eoOp{kind: "select", blocking: in.Blocking}
		for _, s := range in.States {
			ch := chanID(ex.get(st, f, s.Chan))
			op.arms = append(op.arms, AutArm{Kind: armKind(ch, s.Dir == types.SendOnly), Ch: ch})
		}
		return op
	case *ssa.Call:
		if b, ok := in.Call.Value.(*ssa.Builtin); ok && b.Name() == "close" {
			return &eoOp{kind: "close", ch: chanID(ex.get(st, f, in.Call.Args[0]))}
		}
		if fn, ok := in.Call.Value.(*ssa.Function); ok {
			switch fn.String() {
			case "(*sync.WaitGroup).Add":
				n, _ := ex.get(st, f, in.Call.Args[1]).(*smt.Term).Int64()
				return &eoOp{kind: "add", delta: int(n), ch: ex.get(st, f, in.Call.Args[0]).(Ptr).Obj.ID}
			case "(*sync.WaitGroup).Done":
				return &eoOp{kind: "done", delta: -1, ch: ex.get(st, f, in.Call.Args[0]).(Ptr).Obj.ID}
			case "(*sync.WaitGroup).Wait":
				return &eoOp{kind: "wait", ch: ex.get(st, f, in.Call.Args[0]).(Ptr).Obj.ID}
			}
			if fn.Blocks == nil {
				switch fn.Name() {
				case "verifEvent":
					return &eoOp{kind: "ev", label: ex.eoLabel(st, f, in.Call.Args)}
				case "verifNodeOutcome":
					return &eoOp{kind: "ret", label: ex.eoLabel(st, f, in.Call.Args)}
				case "verifCtxErrSet":
					return &eoOp{kind: "ctxerr"}
				}
			}
		}
	case *ssa.RunDefers:
		if len(f.Defers) > 0 {
			d := f.Defers[len(f.Defers)-1]
			if d.Fn.Fn != nil {
				switch d.Fn.Fn.String() {
				case "(*sync.WaitGroup).Done":
					return &eoOp{kind: "done", delta: -1, ch: d.Args[0].(Ptr).Obj.ID, deferred: true}
				case "(*sync.WaitGroup).Add", "(*sync.WaitGroup).Wait":
					ex.abort("deferred WaitGroup.Add/Wait not modelled")
				}
			}
		}
	}
	return nil
}

func (ex *Executor) eoLabel(st *State, f *Frame, args []ssa.Value) string {
	var ps []string
	for _, a := range args {
		v := ex.get(st, f, a)
		if t, ok := v.(*smt.Term); ok && t.IsConst() {
			if t.Sort == smt.String {
				ps = append(ps, t.S)
			} else {
				ps = append(ps, t.String())
			}
		} else {
			ps = append(ps, showVal(v))
		}
	}
	return strings.Join(ps, ":")
}

// eoAtVisible: create/lookup the node for this state, connect the incoming edge, and (for a new node)
// enqueue one successor state per outcome of the operation.
func (ex *Executor) eoAtVisible(st *State, f *Frame, instr ssa.Instruction, op *eoOp) {
	eo := ex.eo
	th := st.Ghost["eo.thread"].(int)
	visits := st.Ghost["eo.visits"].(map[string]int)
	point := fmt.Sprintf("%s#%d.%d", f.Fn.String(), f.Block.Index, f.IP)
	cnt := visits[point]
	key := fmt.Sprintf("%d:%s", th, ex.stateKey(st, cnt))
	if id, ok := eo.keys[key]; ok {
		ex.eoAddEdge(st, id)
		return
	}
	n := eo.newNode(th)
	eo.keys[key] = n.ID
	for _, a := range op.arms {
		for o, v := range st.Heap {
			if o.ID == a.Ch {
				if cd, ok := v.(*ChanData); ok {
					eo.res.Chans[fmt.Sprint(a.Ch)] = cd.Cap
				}
			}
		}
	}
	n.Op = op.kind
	n.Arms = op.arms
	n.Ch = op.ch
	n.Label = op.label
	n.Pos = ex.curPos(st)
	ex.eoAddEdge(st, n.ID)
	if cnt >= eo.cap {
		n.Cutoff = true
		return
	}
	pos := n.Pos
	// successor template
	succ := func(p *eoProto) *State {
		s := st.clone()
		nv := make(map[string]int, len(visits)+1)
		for k, v := range visits {
			nv[k] = v
		}
		nv[point] = cnt + 1
		s.Ghost["eo.visits"] = nv
		s.Ghost["eo.src"] = n.ID
		p.Pos = pos
		s.Ghost["eo.proto"] = p
		// the guard of the next edge starts empty
		s.PC = nil
		s.pcSet = map[int]bool{}
		return s
	}
	push := func(s *State) { ex.work = append(ex.work, s) }
	switch op.kind {
	case "go":
		in := instr.(*ssa.Go)
		s := succ(&eoProto{Kind: "spawn"})
		sf := s.fr()
		d := ex.prepareCall(s, sf, &in.Call)
		child := &AutThread{ID: len(eo.res.Threads), Parent: th}
		fn := d.Fn.Fn
		if ov, ok := ex.Overrides[fn.String()]; ok {
			fn = ov
		}
		child.Fn = fn.String()
		eo.res.Threads = append(eo.res.Threads, child)
		s.Ghost["eo.proto"].(*eoProto).Child = child.ID
		child.Spawn = len(eo.res.Edges) // the edge that will be added when s reaches its next node — fixed up below
		// child state: same heap, a single thread running fn
		cs := s.clone()
		ct := &Thread{ID: 0, Locks: map[string]byte{}}
		cs.Threads = []*Thread{ct}
		cs.Cur = 0
		ex.pushFrame(cs, ct, fn, d.Args, d.Fn.Env, nil)
		cs.Ghost["eo.thread"] = child.ID
		cs.Ghost["eo.src"] = -1
		cs.Ghost["eo.proto"] = &eoProto{Kind: "start"}
		cs.Ghost["eo.visits"] = map[string]int{}
		eo.pending = append(eo.pending, eoSpawn{child.ID, cs})
		sf.IP++
		push(s)
	case "select":
		for i, a := range op.arms {
			switch a.Kind {
			case "send":
				s := succ(&eoProto{Kind: "send", Ch: a.Ch})
				ex.eoFinishSelect(s, instr, i, false, false)
				push(s)
			case "recv":
				s := succ(&eoProto{Kind: "recv", Ch: a.Ch})
				ex.eoFinishSelect(s, instr, i, true, true)
				push(s)
				s2 := succ(&eoProto{Kind: "recvclosed", Ch: a.Ch})
				ex.eoFinishSelect(s2, instr, i, true, false)
				push(s2)
			case "ctxdone":
				s := succ(&eoProto{Kind: "ctxdone", Ch: a.Ch})
				ex.eoFinishSelect(s, instr, i, true, false)
				push(s)
			}
		}
		if !op.blocking {
			s := succ(&eoProto{Kind: "default"})
			ex.eoFinishSelect(s, instr, -1, false, false)
			push(s)
		}
	case "close":
		s := succ(&eoProto{Kind: "close", Ch: op.ch})
		s.fr().IP++
		push(s)
	case "add", "done", "wait":
		s := succ(&eoProto{Kind: op.kind, Ch: op.ch, Delta: op.delta})
		if op.deferred {
			sf := s.fr()
			sf.Defers = sf.Defers[:len(sf.Defers)-1]
		} else {
			s.fr().IP++
		}
		push(s)
	case "ev":
		s := succ(&eoProto{Kind: "ev", Label: op.label})
		s.fr().IP++
		push(s)
	case "ret":
		in := instr.(*ssa.Call)
		for k := 1; k < 4; k++ { // 1 pass, 2 drop, 3 error (0 "pass the same event" is control-equivalent to 1)
			s := succ(&eoProto{Kind: "ret", Label: fmt.Sprintf("%s:%d", op.label, k)})
			s.fr().Regs[in] = smt.IntC(int64(k))
			s.fr().IP++
			push(s)
		}
	case "ctxerr":
		in := instr.(*ssa.Call)
		for k := 0; k < 2; k++ {
			kind := "ctxerr-nil"
			if k == 1 {
				kind = "ctxerr-set"
			}
			s := succ(&eoProto{Kind: kind})
			s.fr().Regs[in] = smt.BoolC(k == 1)
			s.fr().IP++
			push(s)
		}
	}
}

// eoFinishSelect writes the result registers of a send / recv / select instruction for the chosen arm.
func (ex *Executor) eoFinishSelect(s *State, instr ssa.Instruction, idx int, isRecv, ok bool) {
	f := s.fr()
	switch in := instr.(type) {
	case *ssa.Send:
	case *ssa.UnOp:
		et := in.X.Type().Underlying().(*types.Chan).Elem()
		v := ex.zero(et) // received data is havocked to the zero value: control never depends on it (DESIGN §4)
		if in.CommaOk {
			f.Regs[in] = TupleV{v, smt.BoolC(ok)}
		} else {
			f.Regs[in] = v
		}
	case *ssa.Select:
		tv := TupleV{smt.IntC(int64(idx)), smt.BoolC(ok)}
		for _, st := range in.States {
			if st.Dir == types.RecvOnly {
				et := st.Chan.Type().Underlying().(*types.Chan).Elem()
				tv = append(tv, ex.zero(et))
			}
		}
		f.Regs[in] = tv
	}
	f.IP++
}

// stateKey renders the thread-local state (frames, registers, reachable heap) canonically.
func (ex *Executor) stateKey(st *State, cnt int) string {
	var sb strings.Builder
	fmt.Fprintf(&sb, "v%d|", cnt)
	seen := map[*Obj]bool{}
	var queue []*Obj
	var rv func(v Val)
	rv = func(v Val) {
		switch x := v.(type) {
		case nil:
			sb.WriteString("_")
		case *smt.Term:
			fmt.Fprintf(&sb, "t%d", x.ID)
		case Ptr:
			if x.Obj == nil {
				sb.WriteString("nil")
				return
			}
			fmt.Fprintf(&sb, "p%d%s", x.Obj.ID, x.Path)
			if !seen[x.Obj] {
				seen[x.Obj] = true
				queue = append(queue, x.Obj)
			}
		case *StructV:
			sb.WriteString("{")
			for _, f := range x.Fields {
				rv(f)
				sb.WriteString(",")
			}
			sb.WriteString("}")
		case *ArrayV:
			sb.WriteString("[")
			for _, f := range x.Elems {
				rv(f)
				sb.WriteString(",")
			}
			sb.WriteString("]")
		case SliceV:
			if x.Arr == nil {
				sb.WriteString("nilslice")
				return
			}
			fmt.Fprintf(&sb, "s%d:%d:%d", x.Arr.ID, x.Off, x.Len)
			if !seen[x.Arr] {
				seen[x.Arr] = true
				queue = append(queue, x.Arr)
			}
		case BytesV:
			fmt.Fprintf(&sb, "b%d", x.S.ID)
		case MapV:
			if x.Obj == nil {
				sb.WriteString("nilmap")
				return
			}
			fmt.Fprintf(&sb, "m%d", x.Obj.ID)
			if !seen[x.Obj] {
				seen[x.Obj] = true
				queue = append(queue, x.Obj)
			}
		case ChanV:
			if x.Obj == nil {
				sb.WriteString("nilchan")
			} else {
				fmt.Fprintf(&sb, "c%d", x.Obj.ID)
			}
		case IfaceV:
			if x.T == nil {
				sb.WriteString("niliface")
				return
			}
			sb.WriteString("i(" + x.T.String() + ":")
			rv(x.V)
			sb.WriteString(")")
		case FuncV:
			if x.Fn != nil {
				sb.WriteString("f:" + x.Fn.String() + "(")
			} else {
				sb.WriteString("f:" + x.Intr + "(")
			}
			for _, e := range x.Env {
				rv(e)
				sb.WriteString(",")
			}
			sb.WriteString(")")
		case TupleV:
			sb.WriteString("(")
			for _, e := range x {
				rv(e)
				sb.WriteString(",")
			}
			sb.WriteString(")")
		case *MapData:
			sb.WriteString("M{")
			for _, e := range x.Entries {
				rv(e.K)
				sb.WriteString("=")
				rv(e.V)
				sb.WriteString(";")
			}
			sb.WriteString("}")
		case *SyncMapV:
			sb.WriteString("SM{")
			for _, e := range x.Entries {
				rv(e.K)
				sb.WriteString("=")
				rv(e.V)
				sb.WriteString(";")
			}
			sb.WriteString("}")
		case *IterV:
			fmt.Fprintf(&sb, "it%d/%d", x.I, len(x.Keys))
		case *LockV, *WaitGroupV, *ChanData, *OnceV:
			sb.WriteString("sync")
		default:
			fmt.Fprintf(&sb, "?%T", v)
		}
	}
	t := st.th()
	for _, f := range t.Frames {
		fmt.Fprintf(&sb, "F[%s#%d.%d", f.Fn.String(), f.Block.Index, f.IP)
		// only registers that may still be read matter; rendering all of them is sound (fewer merges), but dead
		// registers holding path-specific values would prevent merging: restrict to values live in this block or later
		names := make([]string, 0, len(f.Regs))
		byName := map[string]ssa.Value{}
		for k := range f.Regs {
			if !ex.liveAt(f, k) {
				continue
			}
			nm := k.Name() + "@" + fmt.Sprint(k.Pos())
			names = append(names, nm)
			byName[nm] = k
		}
		sort.Strings(names)
		for _, nm := range names {
			sb.WriteString(";" + nm + "=")
			rv(f.Regs[byName[nm]])
		}
		fmt.Fprintf(&sb, ";defers=%d", len(f.Defers))
		for _, d := range f.Defers {
			rv(d.Fn)
			for _, a := range d.Args {
				rv(a)
			}
		}
		sb.WriteString("]")
	}
	for len(queue) > 0 {
		o := queue[0]
		queue = queue[1:]
		fmt.Fprintf(&sb, "|o%d=", o.ID)
		rv(st.Heap[o])
	}
	return sb.String()
}

// liveAt: conservative liveness — a register is live if some instruction that can still execute in this frame
// (any instruction of a block reachable from the current one, or later in the current block) uses it.
func (ex *Executor) liveAt(f *Frame, v ssa.Value) bool {
	refs := v.Referrers()
	if refs == nil {
		return true // parameters / free vars without referrer info: keep
	}
	reach := ex.reachableBlocks(f.Block)
	for _, r := range *refs {
		b := r.Block()
		if b == nil {
			continue
		}
		if b == f.Block {
			// later in the same block (or the block can be re-entered through a loop)
			for i := f.IP; i < len(b.Instrs); i++ {
				if b.Instrs[i] == r {
					return true
				}
			}
			if reach[b.Index] {
				return true
			}
			continue
		}
		if reach[b.Index] {
			return true
		}
	}
	return false
}

func (ex *Executor) reachableBlocks(b *ssa.BasicBlock) map[int]bool {
	if ex.reachCache == nil {
		ex.reachCache = map[*ssa.BasicBlock]map[int]bool{}
	}
	if r, ok := ex.reachCache[b]; ok {
		return r
	}
	r := map[int]bool{}
	var stack []*ssa.BasicBlock
	stack = append(stack, b.Succs...)
	for len(stack) > 0 {
		x := stack[len(stack)-1]
		stack = stack[:len(stack)-1]
		if r[x.Index] {
			continue
		}
		r[x.Index] = true
		stack = append(stack, x.Succs...)
	}
	ex.reachCache[b] = r
	return r
}
