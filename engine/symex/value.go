// Package symex: a path-wise symbolic executor for go/ssa.
package symex

import (
	"math/big"
	"fmt"
	"go/types"
	"strings"

	"verif/engine/smt"

	"golang.org/x/tools/go/ssa"
)

// Val is a runtime value. Concrete types:
//
//	*smt.Term   scalars: bool, all integer kinds, string, time.Time (ns), float consts (as Int-less opaque)
//	Ptr         pointer (Obj==nil: nil pointer)
//	*StructV    struct value
//	*ArrayV     array value (also the backing store of slices)
//	SliceV      slice header with concrete off/len/cap
//	BytesV      a []byte whose content is one symbolic String term
//	MapV        reference to a map object
//	IfaceV      interface value
//	FuncV       function / closure / bound method
//	ChanV       reference to a channel object
//	TupleV      multi-value result
//	*LockV, *WaitGroupV, *SyncMapV, *OnceV   opaque sync objects (immutable snapshots stored in cells)
//	*MapData, *ChanData  heap payloads of map / chan objects
//	*IterV      map/string range iterator
type Val interface{}

type Obj struct {
	ID   int
	Typ  types.Type
	Name string
	// Birth is the id of the thread-region that allocated it (for escape analysis in access logging)
	Shared bool
}

func (o *Obj) String() string {
	if o == nil {
		return "nil"
	}
	return fmt.Sprintf("o%d<%s>", o.ID, o.Name)
}

type Ptr struct {
	Obj  *Obj
	Path string // encoded selector path: "/f3/i0/..." ; empty = whole object
}

func (p Ptr) IsNil() bool { return p.Obj == nil }
func (p Ptr) String() string {
	if p.Obj == nil {
		return "nilptr"
	}
	return p.Obj.String() + p.Path
}

type StructV struct{ Fields []Val }
type ArrayV struct{ Elems []Val }

type SliceV struct {
	Arr           *Obj // backing array object (value *ArrayV); nil for nil slice
	Off, Len, Cap int
}

// BytesV is a []byte (or any byte-ish slice) with opaque symbolic content.
type BytesV struct {
	S   *smt.Term // String-sorted content
	Nil *smt.Term // Bool: is the slice nil
	// Src/Ver: the slice aliases the memory of a bytes.Buffer (Buffer.Bytes()); it is only valid until the next
	// modification of that buffer (version Ver)
	Src Ptr
	Ver int
}

type MapV struct{ Obj *Obj }
type ChanV struct{ Obj *Obj }

type IfaceV struct {
	T types.Type // dynamic type; nil => nil interface
	V Val
}

type FuncV struct {
	Fn    *ssa.Function
	Env   []Val  // free variable bindings
	Recv  Val    // bound receiver for method values (if HasRecv)
	HasRv bool   //
	Intr  string // name of intrinsic (if Fn has no body)
}

func (f FuncV) IsNil() bool { return f.Fn == nil && f.Intr == "" }

type TupleV []Val

type LockV struct {
	W     bool
	R     int
	Owner []int // thread ids holding (writer or readers)
}
type WaitGroupV struct{ N int }
type OnceV struct{ Done bool }

type MapEntry struct {
	K, V Val
}
type MapData struct {
	Entries []MapEntry
}
type SyncMapV struct {
	Entries []MapEntry
}

type ChanData struct {
	Cap    int
	Buf    []Val
	Closed bool
}

type IterV struct {
	Keys []Val
	Vals []Val
	Map  MapV
	I    int
	IsStr bool
}

// ---------- zero values ----------

func isNamed(t types.Type, pkg, name string) bool {
	n, ok := t.(*types.Named)
	if !ok {
		return false
	}
	o := n.Obj()
	return o.Name() == name && o.Pkg() != nil && o.Pkg().Path() == pkg
}

func (ex *Executor) zero(t types.Type) Val {
	switch {
	case isNamed(t, "sync", "Mutex"), isNamed(t, "sync", "RWMutex"):
		return &LockV{}
	case isNamed(t, "sync", "WaitGroup"):
		return &WaitGroupV{}
	case isNamed(t, "sync", "Once"):
		return &OnceV{}
	case isNamed(t, "sync", "Map"):
		return &SyncMapV{}
	case isNamed(t, "time", "Time"):
		return ZeroTime()
	case isNamed(t, "bytes", "Buffer"):
		return &BufV{S: smt.StrC("")}
	case isNamed(t, "reflect", "Value"):
		return &RValue{}
	}
	switch u := t.Underlying().(type) {
	case *types.Basic:
		switch {
		case u.Info()&types.IsBoolean != 0:
			return smt.False
		case u.Info()&types.IsString != 0:
			return smt.StrC("")
		case u.Info()&types.IsNumeric != 0:
			return smt.IntC(0)
		case u.Kind() == types.UnsafePointer:
			return Ptr{}
		case u.Kind() == types.UntypedNil:
			return Ptr{}
		}
	case *types.Pointer:
		return Ptr{}
	case *types.Struct:
		fs := make([]Val, u.NumFields())
		for i := range fs {
			fs[i] = ex.zero(u.Field(i).Type())
		}
		return &StructV{fs}
	case *types.Array:
		es := make([]Val, int(u.Len()))
		for i := range es {
			es[i] = ex.zero(u.Elem())
		}
		return &ArrayV{es}
	case *types.Slice:
		return SliceV{}
	case *types.Map:
		return MapV{}
	case *types.Chan:
		return ChanV{}
	case *types.Interface:
		return IfaceV{}
	case *types.Signature:
		return FuncV{}
	case *types.Tuple:
		tv := make(TupleV, u.Len())
		for i := range tv {
			tv[i] = ex.zero(u.At(i).Type())
		}
		return tv
	}
	panic(fmt.Sprintf("zero: unsupported type %s", t))
}

func sortOf(t types.Type) smt.Sort {
	if isNamed(t, "time", "Time") {
		return smt.Int
	}
	switch u := t.Underlying().(type) {
	case *types.Basic:
		switch {
		case u.Info()&types.IsBoolean != 0:
			return smt.Bool
		case u.Info()&types.IsString != 0:
			return smt.String
		default:
			return smt.Int
		}
	}
	panic("sortOf: not scalar " + t.String())
}

func isScalar(t types.Type) bool {
	if isNamed(t, "time", "Time") {
		return true
	}
	_, ok := t.Underlying().(*types.Basic)
	return ok
}

// ---------- paths ----------

func pathAppend(p string, kind byte, i int) string {
	return fmt.Sprintf("%s/%c%d", p, kind, i)
}

func parsePath(p string) []int {
	if p == "" {
		return nil
	}
	parts := strings.Split(p[1:], "/")
	out := make([]int, len(parts))
	for i, s := range parts {
		n := 0
		for _, c := range s[1:] {
			n = n*10 + int(c-'0')
		}
		out[i] = n
	}
	return out
}

func getPath(v Val, path []int) Val {
	for _, i := range path {
		switch x := v.(type) {
		case *StructV:
			v = x.Fields[i]
		case *ArrayV:
			v = x.Elems[i]
		default:
			panic(fmt.Sprintf("getPath: cannot descend into %T", v))
		}
	}
	return v
}

func setPath(v Val, path []int, nv Val) Val {
	if len(path) == 0 {
		return nv
	}
	i := path[0]
	switch x := v.(type) {
	case *StructV:
		fs := make([]Val, len(x.Fields))
		copy(fs, x.Fields)
		fs[i] = setPath(fs[i], path[1:], nv)
		return &StructV{fs}
	case *ArrayV:
		es := make([]Val, len(x.Elems))
		copy(es, x.Elems)
		es[i] = setPath(es[i], path[1:], nv)
		return &ArrayV{es}
	}
	panic(fmt.Sprintf("setPath: cannot descend into %T", v))
}

// ---------- equality ----------

// valEq returns a Bool term for a == b (Go semantics for comparable values).
func (ex *Executor) valEq(a, b Val) *smt.Term {
	switch x := a.(type) {
	case *smt.Term:
		y, ok := b.(*smt.Term)
		if !ok {
			panic(fmt.Sprintf("valEq term vs %T", b))
		}
		return smt.Eq(x, y)
	case Ptr:
		y, ok := b.(Ptr)
		if !ok {
			panic(fmt.Sprintf("valEq ptr vs %T", b))
		}
		return smt.BoolC(x.Obj == y.Obj && x.Path == y.Path)
	case IfaceV:
		y, ok := b.(IfaceV)
		if !ok {
			// comparing interface with concrete nil-like
			panic(fmt.Sprintf("valEq iface vs %T", b))
		}
		if x.T == nil || y.T == nil {
			return smt.BoolC(x.T == nil && y.T == nil)
		}
		if !types.Identical(x.T, y.T) {
			return smt.False
		}
		return ex.valEq(x.V, y.V)
	case *StructV:
		y := b.(*StructV)
		cs := []*smt.Term{}
		for i := range x.Fields {
			cs = append(cs, ex.valEq(x.Fields[i], y.Fields[i]))
		}
		return smt.And(cs...)
	case *ArrayV:
		y := b.(*ArrayV)
		cs := []*smt.Term{}
		for i := range x.Elems {
			cs = append(cs, ex.valEq(x.Elems[i], y.Elems[i]))
		}
		return smt.And(cs...)
	case MapV:
		y := b.(MapV)
		return smt.BoolC(x.Obj == y.Obj)
	case ChanV:
		y := b.(ChanV)
		return smt.BoolC(x.Obj == y.Obj)
	case SliceV:
		// only comparison with nil is legal
		y, ok := b.(SliceV)
		if ok && y.Arr == nil && y.Len == 0 {
			return smt.BoolC(x.Arr == nil)
		}
		if ok && x.Arr == nil && x.Len == 0 {
			return smt.BoolC(y.Arr == nil)
		}
	case BytesV:
		if y, ok := b.(SliceV); ok && y.Arr == nil {
			return x.Nil
		}
	case FuncV:
		y, ok := b.(FuncV)
		if ok && y.IsNil() {
			return smt.BoolC(x.IsNil())
		}
		if ok && x.IsNil() {
			return smt.BoolC(y.IsNil())
		}
	case *LockV, *WaitGroupV, *SyncMapV, *OnceV:
		return smt.True
	case *RType:
		y, ok := b.(*RType)
		return smt.BoolC(ok && types.Identical(x.T, y.T))
	case *RValue:
		y, ok := b.(*RValue)
		if !ok {
			return smt.False
		}
		if !x.Valid || !y.Valid {
			return smt.BoolC(x.Valid == y.Valid)
		}
		same := types.Identical(x.Typ, y.Typ) && x.Addr == y.Addr && (x.Addr.Obj != nil || sameVal(x.Val, y.Val))
		return smt.BoolC(same)
	}
	if s, ok := a.(SliceV); ok && s.Arr == nil {
		if y, ok := b.(BytesV); ok {
			return y.Nil
		}
	}
	panic(fmt.Sprintf("valEq: unsupported %T vs %T", a, b))
}

func showVal(v Val) string {
	switch x := v.(type) {
	case nil:
		return "<nil>"
	case *smt.Term:
		return x.Short()
	case Ptr:
		return x.String()
	case IfaceV:
		if x.T == nil {
			return "iface(nil)"
		}
		return "iface(" + x.T.String() + "," + showVal(x.V) + ")"
	case SliceV:
		return fmt.Sprintf("slice(%v,%d,%d,%d)", x.Arr, x.Off, x.Len, x.Cap)
	case *StructV:
		var ps []string
		for _, f := range x.Fields {
			ps = append(ps, showVal(f))
		}
		return "{" + strings.Join(ps, ",") + "}"
	case TupleV:
		var ps []string
		for _, f := range x {
			ps = append(ps, showVal(f))
		}
		return "(" + strings.Join(ps, ",") + ")"
	case FuncV:
		if x.Fn != nil {
			return "func " + x.Fn.String()
		}
		return "func?" + x.Intr
	case MapV:
		return "map@" + x.Obj.String()
	}
	return fmt.Sprintf("%T", v)
}

// ZeroTime: the zero time.Time (January 1, year 1 UTC) on the executor's time line, which counts nanoseconds since the
// Unix epoch in unbounded integers: distinct from the epoch itself
func ZeroTime() *smt.Term {
	z := new(big.Int).Mul(big.NewInt(-62135596800), big.NewInt(1000000000))
	return smt.BigC(z)
}
