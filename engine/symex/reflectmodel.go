package symex

// reflect-lite: reflect.Value / reflect.Type over the executor's own typed value model, plus copystructure.Copy and
// pointerstructure.Get/Set. Payload *shapes* are concrete Go types of the harness; leaf contents are symbolic.

import (
	"fmt"
	"go/types"
	"reflect"
	"strings"

	"verif/engine/smt"

	"golang.org/x/tools/go/ssa"
)

type RValue struct {
	Valid    bool
	Typ      types.Type
	Addr     Ptr // location, if addressable (Addr.Obj != nil)
	Val      Val // the value, if not addressable
	Settable bool
	RO       bool // obtained through an unexported field: CanInterface() == false
}

type RType struct{ T types.Type }

func (ex *Executor) rcur(st *State, r *RValue) Val {
	if r.Addr.Obj != nil {
		return ex.load(st, r.Addr)
	}
	return r.Val
}

func kindOf(t types.Type) int64 {
	if isNamed(t, "time", "Time") {
		return 25
	}
	switch u := t.Underlying().(type) {
	case *types.Basic:
		switch u.Kind() {
		case types.Bool, types.UntypedBool:
			return 1
		case types.Int, types.UntypedInt:
			return 2
		case types.Int8:
			return 3
		case types.Int16:
			return 4
		case types.Int32:
			return 5
		case types.Int64:
			return 6
		case types.Uint:
			return 7
		case types.Uint8:
			return 8
		case types.Uint16:
			return 9
		case types.Uint32:
			return 10
		case types.Uint64:
			return 11
		case types.Uintptr:
			return 12
		case types.Float32:
			return 13
		case types.Float64:
			return 14
		case types.String, types.UntypedString:
			return 24
		case types.UnsafePointer:
			return 26
		}
	case *types.Array:
		return 17
	case *types.Chan:
		return 18
	case *types.Signature:
		return 19
	case *types.Interface:
		return 20
	case *types.Map:
		return 21
	case *types.Pointer:
		return 22
	case *types.Slice:
		return 23
	case *types.Struct:
		return 25
	}
	return 0
}

func (ex *Executor) rtypeVal(t types.Type) Val {
	rt := ex.lookupType("reflect", "rtype")
	if t == nil {
		return IfaceV{}
	}
	return IfaceV{T: types.NewPointer(rt), V: &RType{T: t}}
}

func rtypeOf(v Val) types.Type {
	iv, ok := v.(IfaceV)
	if !ok || iv.T == nil {
		return nil
	}
	if r, ok := iv.V.(*RType); ok {
		return r.T
	}
	return nil
}

func rv(v Val) *RValue {
	r, ok := v.(*RValue)
	if !ok {
		panic(abortPath{fmt.Sprintf("expected reflect.Value, got %T", v)})
	}
	return r
}

// isZeroTerm: Bool term "value is the zero value of its type"
func (ex *Executor) isZeroTerm(st *State, v Val, t types.Type) *smt.Term {
	switch x := v.(type) {
	case *smt.Term:
		switch x.Sort {
		case smt.Bool:
			return smt.Not(x)
		case smt.Int:
			return smt.Eq(x, smt.IntC(0))
		default:
			return smt.Eq(x, smt.StrC(""))
		}
	case Ptr:
		return smt.BoolC(x.Obj == nil)
	case IfaceV:
		return smt.BoolC(x.T == nil)
	case SliceV:
		return smt.BoolC(x.Arr == nil)
	case BytesV:
		return x.Nil
	case MapV:
		return smt.BoolC(x.Obj == nil)
	case FuncV:
		return smt.BoolC(x.IsNil())
	case ChanV:
		return smt.BoolC(x.Obj == nil)
	case *StructV:
		su, _ := t.Underlying().(*types.Struct)
		cs := []*smt.Term{}
		for i, f := range x.Fields {
			var ft types.Type
			if su != nil {
				ft = su.Field(i).Type()
			}
			cs = append(cs, ex.isZeroTerm(st, f, ft))
		}
		return smt.And(cs...)
	case *ArrayV:
		cs := []*smt.Term{}
		for _, f := range x.Elems {
			cs = append(cs, ex.isZeroTerm(st, f, nil))
		}
		return smt.And(cs...)
	case *LockV, *WaitGroupV, *SyncMapV, *OnceV:
		return smt.True
	}
	return smt.False
}

func (ex *Executor) reflectValueOf(st *State, v Val) *RValue {
	iv, ok := v.(IfaceV)
	if !ok || iv.T == nil {
		return &RValue{}
	}
	return &RValue{Valid: true, Typ: iv.T, Val: iv.V}
}

func (ex *Executor) rElem(st *State, r *RValue) *RValue {
	if !r.Valid {
		ex.goPanic(st, "reflect: call of reflect.Value.Elem on zero Value")
	}
	cur := ex.rcur(st, r)
	switch u := r.Typ.Underlying().(type) {
	case *types.Pointer:
		p := cur.(Ptr)
		if p.Obj == nil {
			return &RValue{}
		}
		return &RValue{Valid: true, Typ: u.Elem(), Addr: p, Settable: !r.RO, RO: r.RO}
	case *types.Interface:
		iv := cur.(IfaceV)
		if iv.T == nil {
			return &RValue{}
		}
		return &RValue{Valid: true, Typ: iv.T, Val: iv.V, RO: r.RO}
	}
	ex.goPanic(st, "reflect: call of reflect.Value.Elem on "+r.Typ.String()+" Value")
	return nil
}

func (ex *Executor) rField(st *State, r *RValue, i int) *RValue {
	su, ok := r.Typ.Underlying().(*types.Struct)
	if !ok {
		ex.goPanic(st, "reflect: Field of non-struct "+r.Typ.String())
	}
	f := su.Field(i)
	ro := r.RO || !f.Exported()
	if r.Addr.Obj != nil {
		return &RValue{Valid: true, Typ: f.Type(), Addr: Ptr{r.Addr.Obj, pathAppend(r.Addr.Path, 'f', i)}, Settable: r.Settable && !ro, RO: ro}
	}
	sv := r.Val.(*StructV)
	return &RValue{Valid: true, Typ: f.Type(), Val: sv.Fields[i], RO: ro}
}

func fieldIndex(t types.Type, name string) int {
	su, ok := t.Underlying().(*types.Struct)
	if !ok {
		return -1
	}
	for i := 0; i < su.NumFields(); i++ {
		if su.Field(i).Name() == name {
			return i
		}
	}
	return -1
}

// deepCopy implements copystructure.Copy on the executor's value model: exported fields, slices, maps and
// pointees are copied recursively, unexported struct fields are left at their zero value; everything read is logged.
func (ex *Executor) deepCopy(st *State, v Val, t types.Type, memo map[*Obj]*Obj, depth int) Val {
	if depth > 12 {
		ex.abort("copystructure.Copy: structure too deep")
	}
	for _, sh := range ex.shallowTypes {
		if t != nil && types.Identical(sh, t) {
			return v
		}
	}
	switch x := v.(type) {
	case Ptr:
		if x.Obj == nil {
			return x
		}
		if n, ok := memo[x.Obj]; ok {
			return Ptr{n, x.Path}
		}
		if x.Path != "" {
			ex.abort("copystructure.Copy: interior pointer")
		}
		ex.logAccess(st, x, false)
		n := ex.newObj(x.Obj.Typ, "copy:"+x.Obj.Name)
		memo[x.Obj] = n
		st.Heap[n] = ex.deepCopy(st, st.Heap[x.Obj], x.Obj.Typ, memo, depth+1)
		return Ptr{n, ""}
	case *StructV:
		su, ok := t.Underlying().(*types.Struct)
		if !ok {
			return x
		}
		fs := make([]Val, len(x.Fields))
		for i, f := range x.Fields {
			if su.Field(i).Exported() {
				fs[i] = ex.deepCopy(st, f, su.Field(i).Type(), memo, depth+1)
			} else {
				fs[i] = ex.zero(su.Field(i).Type())
			}
		}
		return &StructV{fs}
	case SliceV:
		if x.Arr == nil {
			return x
		}
		ex.logAccess(st, Ptr{Obj: x.Arr}, false)
		var et types.Type
		if sl, ok := t.Underlying().(*types.Slice); ok {
			et = sl.Elem()
		}
		es := ex.sliceElems(st, x)
		ne := make([]Val, len(es))
		for i, e := range es {
			ne[i] = ex.deepCopy(st, e, et, memo, depth+1)
		}
		o := ex.newObj(x.Arr.Typ, "copy:slice")
		st.Heap[o] = &ArrayV{ne}
		return SliceV{Arr: o, Len: len(ne), Cap: len(ne)}
	case MapV:
		if x.Obj == nil {
			return x
		}
		ex.logAccess(st, Ptr{Obj: x.Obj}, false)
		var kt, vt types.Type
		if mt, ok := t.Underlying().(*types.Map); ok {
			kt, vt = mt.Key(), mt.Elem()
		}
		md := ex.mapData(st, x)
		ne := make([]MapEntry, len(md.Entries))
		for i, e := range md.Entries {
			ne[i] = MapEntry{ex.deepCopy(st, e.K, kt, memo, depth+1), ex.deepCopy(st, e.V, vt, memo, depth+1)}
		}
		o := ex.newObj(x.Obj.Typ, "copy:map")
		st.Heap[o] = &MapData{ne}
		return MapV{o}
	case IfaceV:
		if x.T == nil {
			return x
		}
		for _, sh := range ex.shallowTypes {
			if types.Identical(sh, x.T) {
				return x
			}
		}
		return IfaceV{T: x.T, V: ex.deepCopy(st, x.V, x.T, memo, depth+1)}
	case *ArrayV:
		ne := make([]Val, len(x.Elems))
		for i, e := range x.Elems {
			ne[i] = ex.deepCopy(st, e, nil, memo, depth+1)
		}
		return &ArrayV{ne}
	}
	return v // scalars, []byte content (immutable), funcs, chans
}

// psNavigate walks a JSON-pointer-like path through maps (string keys), structs (field names) and pointers.
// It returns the container and key of the last segment so that Get and Set share the walk.
func (ex *Executor) psGet(st *State, cur Val, t types.Type, segs []string) (Val, types.Type, bool) {
	for _, seg := range segs {
		// dereference interfaces and pointers
		for {
			if iv, ok := cur.(IfaceV); ok {
				if iv.T == nil {
					return nil, nil, false
				}
				cur, t = iv.V, iv.T
				continue
			}
			if p, ok := cur.(Ptr); ok {
				if p.Obj == nil {
					return nil, nil, false
				}
				pt, _ := t.Underlying().(*types.Pointer)
				cur = ex.load(st, p)
				if pt != nil {
					t = pt.Elem()
				}
				continue
			}
			break
		}
		switch x := cur.(type) {
		case MapV:
			md := ex.mapData(st, x)
			found := false
			for _, e := range md.Entries {
				if k, ok := e.K.(*smt.Term); ok && k.IsConst() && k.S == seg {
					cur = e.V
					if mt, ok := t.Underlying().(*types.Map); ok {
						t = mt.Elem()
					}
					found = true
					break
				}
			}
			if !found {
				return nil, nil, false
			}
		case *StructV:
			i := fieldIndex(t, seg)
			if i < 0 {
				return nil, nil, false
			}
			cur = x.Fields[i]
			t = t.Underlying().(*types.Struct).Field(i).Type()
		default:
			// walking into something that is neither a map nor a struct (a string, a number, ...): the library reports an
			// error of its own, not ErrNotFound
			ex.psOther = true
			return nil, nil, false
		}
	}
	return cur, t, true
}

func splitPointer(p string) []string {
	p = strings.TrimPrefix(p, "/")
	if p == "" {
		return nil
	}
	return strings.Split(p, "/")
}

func registerReflect(ex *Executor) {
	I := ex.Intr
	I["reflect.ValueOf"] = func(ex *Executor, st *State, cc *CallCtx, args []Val) (Val, ctl) {
		return ex.reflectValueOf(st, args[0]), cNext
	}
	I["reflect.TypeOf"] = func(ex *Executor, st *State, cc *CallCtx, args []Val) (Val, ctl) {
		iv, ok := args[0].(IfaceV)
		if !ok || iv.T == nil {
			return IfaceV{}, cNext
		}
		return ex.rtypeVal(iv.T), cNext
	}
	I["reflect.New"] = func(ex *Executor, st *State, cc *CallCtx, args []Val) (Val, ctl) {
		t := rtypeOf(args[0])
		if t == nil {
			ex.goPanic(st, "reflect: New(nil)")
		}
		p := ex.alloc(st, t, "reflect.New", ex.zero(t))
		return &RValue{Valid: true, Typ: types.NewPointer(t), Val: p}, cNext
	}
	I["reflect.Indirect"] = func(ex *Executor, st *State, cc *CallCtx, args []Val) (Val, ctl) {
		r := rv(args[0])
		if r.Valid {
			if _, ok := r.Typ.Underlying().(*types.Pointer); ok {
				return ex.rElem(st, r), cNext
			}
		}
		return r, cNext
	}
	V := func(name string, f func(ex *Executor, st *State, r *RValue, args []Val) Val) {
		I["(reflect.Value)."+name] = func(ex *Executor, st *State, cc *CallCtx, args []Val) (Val, ctl) {
			return f(ex, st, rv(args[0]), args[1:]), cNext
		}
	}
	V("IsValid", func(ex *Executor, st *State, r *RValue, a []Val) Val { return smt.BoolC(r.Valid) })
	V("Kind", func(ex *Executor, st *State, r *RValue, a []Val) Val {
		if !r.Valid {
			return smt.IntC(0)
		}
		return smt.IntC(kindOf(r.Typ))
	})
	V("Type", func(ex *Executor, st *State, r *RValue, a []Val) Val {
		if !r.Valid {
			ex.goPanic(st, "reflect: call of reflect.Value.Type on zero Value")
		}
		return ex.rtypeVal(r.Typ)
	})
	V("Elem", func(ex *Executor, st *State, r *RValue, a []Val) Val { return ex.rElem(st, r) })
	V("CanSet", func(ex *Executor, st *State, r *RValue, a []Val) Val { return smt.BoolC(r.Valid && r.Settable) })
	V("CanInterface", func(ex *Executor, st *State, r *RValue, a []Val) Val {
		if !r.Valid {
			ex.goPanic(st, "reflect: CanInterface on zero Value")
		}
		return smt.BoolC(!r.RO)
	})
	V("CanAddr", func(ex *Executor, st *State, r *RValue, a []Val) Val { return smt.BoolC(r.Valid && r.Addr.Obj != nil) })
	V("Interface", func(ex *Executor, st *State, r *RValue, a []Val) Val {
		if !r.Valid {
			ex.goPanic(st, "reflect: call of reflect.Value.Interface on zero Value")
		}
		if r.RO {
			ex.goPanic(st, "reflect.Value.Interface: cannot return value obtained from unexported field or method")
		}
		cur := ex.rcur(st, r)
		if _, ok := r.Typ.Underlying().(*types.Interface); ok {
			return cur
		}
		return IfaceV{T: r.Typ, V: cur}
	})
	V("NumField", func(ex *Executor, st *State, r *RValue, a []Val) Val {
		su, ok := r.Typ.Underlying().(*types.Struct)
		if !ok {
			ex.goPanic(st, "reflect: NumField of non-struct")
		}
		return smt.IntC(int64(su.NumFields()))
	})
	V("Field", func(ex *Executor, st *State, r *RValue, a []Val) Val {
		i, _ := a[0].(*smt.Term).Int64()
		return ex.rField(st, r, int(i))
	})
	V("FieldByName", func(ex *Executor, st *State, r *RValue, a []Val) Val {
		i := fieldIndex(r.Typ, strArg(a[0]))
		if i < 0 {
			return &RValue{}
		}
		return ex.rField(st, r, i)
	})
	V("Len", func(ex *Executor, st *State, r *RValue, a []Val) Val {
		switch x := ex.rcur(st, r).(type) {
		case SliceV:
			return smt.IntC(int64(x.Len))
		case BytesV:
			return smt.Ite(x.Nil, smt.IntC(0), ex.strLen(st, x.S))
		case MapV:
			return smt.IntC(int64(len(ex.mapData(st, x).Entries)))
		case *smt.Term:
			return ex.strLen(st, x)
		case *ArrayV:
			return smt.IntC(int64(len(x.Elems)))
		}
		ex.goPanic(st, "reflect: Len of "+r.Typ.String())
		return nil
	})
	V("Index", func(ex *Executor, st *State, r *RValue, a []Val) Val {
		i, ok := a[0].(*smt.Term).Int64()
		if !ok {
			ex.abort("reflect.Value.Index with symbolic index")
		}
		switch x := ex.rcur(st, r).(type) {
		case SliceV:
			if int(i) >= x.Len {
				ex.goPanic(st, "reflect: slice index out of range")
			}
			et := r.Typ.Underlying().(*types.Slice).Elem()
			return &RValue{Valid: true, Typ: et, Addr: Ptr{x.Arr, pathAppend("", 'i', x.Off+int(i))}, Settable: !r.RO, RO: r.RO}
		}
		ex.abort("reflect.Value.Index on %s", r.Typ)
		return nil
	})
	V("IsNil", func(ex *Executor, st *State, r *RValue, a []Val) Val {
		if !r.Valid {
			ex.goPanic(st, "reflect: IsNil on zero Value")
		}
		return ex.isZeroTerm(st, ex.rcur(st, r), r.Typ)
	})
	V("IsZero", func(ex *Executor, st *State, r *RValue, a []Val) Val {
		if !r.Valid {
			ex.goPanic(st, "reflect: call of reflect.Value.IsZero on zero Value")
		}
		return ex.isZeroTerm(st, ex.rcur(st, r), r.Typ)
	})
	V("String", func(ex *Executor, st *State, r *RValue, a []Val) Val {
		if !r.Valid {
			return smt.StrC("<invalid Value>")
		}
		if t, ok := ex.rcur(st, r).(*smt.Term); ok && t.Sort == smt.String {
			return t
		}
		return smt.StrC("<" + typeString(r.Typ) + " Value>")
	})
	V("Bytes", func(ex *Executor, st *State, r *RValue, a []Val) Val { return ex.rcur(st, r) })
	V("SetString", func(ex *Executor, st *State, r *RValue, a []Val) Val {
		if !r.Settable {
			ex.goPanic(st, "reflect: reflect.Value.SetString using unaddressable value")
		}
		ex.store(st, r.Addr, a[0])
		return nil
	})
	V("SetBytes", func(ex *Executor, st *State, r *RValue, a []Val) Val {
		if !r.Settable {
			ex.goPanic(st, "reflect: reflect.Value.SetBytes using unaddressable value")
		}
		ex.store(st, r.Addr, a[0])
		return nil
	})
	V("Set", func(ex *Executor, st *State, r *RValue, a []Val) Val {
		if !r.Settable {
			ex.goPanic(st, "reflect: reflect.Value.Set using unaddressable value")
		}
		ex.store(st, r.Addr, ex.rcur(st, rv(a[0])))
		return nil
	})
	V("Addr", func(ex *Executor, st *State, r *RValue, a []Val) Val {
		if r.Addr.Obj == nil {
			ex.goPanic(st, "reflect.Value.Addr of unaddressable value")
		}
		return &RValue{Valid: true, Typ: types.NewPointer(r.Typ), Val: r.Addr, RO: r.RO}
	})
	V("Pointer", func(ex *Executor, st *State, r *RValue, a []Val) Val {
		switch x := ex.rcur(st, r).(type) {
		case Ptr:
			if x.Obj == nil {
				return smt.IntC(0)
			}
			return smt.IntC(addrOf(x))
		case MapV:
			if x.Obj == nil {
				return smt.IntC(0)
			}
			return smt.IntC(addrOf(Ptr{Obj: x.Obj}))
		case SliceV:
			if x.Arr == nil {
				return smt.IntC(0)
			}
			return smt.IntC(addrOf(Ptr{Obj: x.Arr, Path: fmt.Sprintf("/i%d", x.Off)}))
		}
		ex.goPanic(st, "reflect: Pointer of "+r.Typ.String())
		return nil
	})
	// UnsafeAddr: the address of an addressable value; a struct's first field (and the first element of an array) has the
	// address of the enclosing value, as in the gc layout
	V("UnsafeAddr", func(ex *Executor, st *State, r *RValue, a []Val) Val {
		if r.Addr.Obj == nil {
			ex.goPanic(st, "reflect.Value.UnsafeAddr of unaddressable value")
		}
		return smt.IntC(addrOf(r.Addr))
	})
	V("MapKeys", func(ex *Executor, st *State, r *RValue, a []Val) Val {
		m, ok := ex.rcur(st, r).(MapV)
		if !ok {
			ex.goPanic(st, "reflect: MapKeys of non-map")
		}
		if m.Obj != nil {
			ex.logAccess(st, Ptr{Obj: m.Obj}, false)
		}
		kt := r.Typ.Underlying().(*types.Map).Key()
		var es []Val
		for _, e := range ex.mapData(st, m).Entries {
			es = append(es, &RValue{Valid: true, Typ: kt, Val: e.K})
		}
		vt := ex.lookupType("reflect", "Value")
		o := ex.newObj(types.NewArray(vt, int64(len(es))), "mapkeys")
		st.Heap[o] = &ArrayV{es}
		return SliceV{Arr: o, Len: len(es), Cap: len(es)}
	})
	V("MapIndex", func(ex *Executor, st *State, r *RValue, a []Val) Val {
		m := ex.rcur(st, r).(MapV)
		md := ex.mapData(st, m)
		k := ex.rcur(st, rv(a[0]))
		i := ex.findEntry(st, md.Entries, k)
		if m.Obj != nil {
			ex.logAccess(st, Ptr{Obj: m.Obj}, false)
		}
		if i < 0 {
			return &RValue{}
		}
		return &RValue{Valid: true, Typ: r.Typ.Underlying().(*types.Map).Elem(), Val: md.Entries[i].V, RO: r.RO}
	})
	V("SetMapIndex", func(ex *Executor, st *State, r *RValue, a []Val) Val {
		m := ex.rcur(st, r).(MapV)
		if m.Obj == nil {
			ex.goPanic(st, "assignment to entry in nil map")
		}
		k := ex.rcur(st, rv(a[0]))
		nvr := rv(a[1])
		et := r.Typ.Underlying().(*types.Map).Elem()
		nv := ex.rcur(st, nvr)
		if _, isI := et.Underlying().(*types.Interface); isI {
			if _, already := nvr.Typ.Underlying().(*types.Interface); !already {
				nv = IfaceV{T: nvr.Typ, V: nv}
			}
		}
		ex.mapStore(st, m, k, nv)
		return nil
	})
	// reflect.Type methods
	T := func(name string, f func(ex *Executor, st *State, t types.Type, args []Val) Val) {
		I["(*reflect.rtype)."+name] = func(ex *Executor, st *State, cc *CallCtx, args []Val) (Val, ctl) {
			r, ok := args[0].(*RType)
			if !ok {
				ex.abort("reflect.Type method on %T", args[0])
			}
			return f(ex, st, r.T, args[1:]), cNext
		}
	}
	T("Kind", func(ex *Executor, st *State, t types.Type, a []Val) Val { return smt.IntC(kindOf(t)) })
	T("String", func(ex *Executor, st *State, t types.Type, a []Val) Val { return smt.StrC(typeString(t)) })
	T("Name", func(ex *Executor, st *State, t types.Type, a []Val) Val {
		if n, ok := t.(*types.Named); ok {
			return smt.StrC(n.Obj().Name())
		}
		return smt.StrC("")
	})
	T("NumField", func(ex *Executor, st *State, t types.Type, a []Val) Val {
		su, ok := t.Underlying().(*types.Struct)
		if !ok {
			ex.goPanic(st, "reflect: NumField of non-struct type "+t.String())
		}
		return smt.IntC(int64(su.NumFields()))
	})
	T("Elem", func(ex *Executor, st *State, t types.Type, a []Val) Val {
		switch u := t.Underlying().(type) {
		case *types.Pointer:
			return ex.rtypeVal(u.Elem())
		case *types.Slice:
			return ex.rtypeVal(u.Elem())
		case *types.Map:
			return ex.rtypeVal(u.Elem())
		case *types.Array:
			return ex.rtypeVal(u.Elem())
		}
		ex.goPanic(st, "reflect: Elem of invalid type "+t.String())
		return nil
	})
	T("Field", func(ex *Executor, st *State, t types.Type, a []Val) Val {
		su, ok := t.Underlying().(*types.Struct)
		if !ok {
			ex.goPanic(st, "reflect: Field of non-struct type")
		}
		i, _ := a[0].(*smt.Term).Int64()
		sft := ex.lookupType("reflect", "StructField")
		sv := ex.zero(sft).(*StructV)
		ssu := sft.Underlying().(*types.Struct)
		for k := 0; k < ssu.NumFields(); k++ {
			switch ssu.Field(k).Name() {
			case "Name":
				sv.Fields[k] = smt.StrC(su.Field(int(i)).Name())
			case "Tag":
				sv.Fields[k] = smt.StrC(su.Tag(int(i)))
			case "Type":
				sv.Fields[k] = ex.rtypeVal(su.Field(int(i)).Type())
			case "PkgPath":
				if !su.Field(int(i)).Exported() {
					sv.Fields[k] = smt.StrC("pkg")
				}
			}
		}
		return sv
	})
	I["(reflect.StructTag).Lookup"] = func(ex *Executor, st *State, cc *CallCtx, args []Val) (Val, ctl) {
		tag, key := strArg(args[0]), strArg(args[1])
		v, ok := reflect.StructTag(tag).Lookup(key)
		return TupleV{smt.StrC(v), smt.BoolC(ok)}, cNext
	}
	I["(reflect.StructTag).Get"] = func(ex *Executor, st *State, cc *CallCtx, args []Val) (Val, ctl) {
		return smt.StrC(reflect.StructTag(strArg(args[0])).Get(strArg(args[1]))), cNext
	}
	// ---- copystructure / pointerstructure ----
	I["github.com/mitchellh/copystructure.Copy"] = func(ex *Executor, st *State, cc *CallCtx, args []Val) (Val, ctl) {
		iv, ok := args[0].(IfaceV)
		if !ok || iv.T == nil {
			return TupleV{IfaceV{}, IfaceV{}}, cNext
		}
		cp := ex.deepCopy(st, iv.V, iv.T, map[*Obj]*Obj{}, 0)
		return TupleV{IfaceV{T: iv.T, V: cp}, IfaceV{}}, cNext
	}
	// copystructure.Config{ShallowCopiers: ...}.Copy: values of the listed types are shared, not copied
	I["(github.com/mitchellh/copystructure.Config).Copy"] = func(ex *Executor, st *State, cc *CallCtx, args []Val) (Val, ctl) {
		cfg := args[0].(*StructV)
		ct := ex.lookupType("github.com/mitchellh/copystructure", "Config").Underlying().(*types.Struct)
		var shallow []types.Type
		for i := 0; i < ct.NumFields(); i++ {
			if ct.Field(i).Name() == "ShallowCopiers" {
				if m, ok := cfg.Fields[i].(MapV); ok && m.Obj != nil {
					for _, e := range ex.mapData(st, m).Entries {
						if t := rtypeOf(e.K); t != nil {
							shallow = append(shallow, t)
						}
					}
				}
			}
		}
		iv, ok := args[1].(IfaceV)
		if !ok || iv.T == nil {
			return TupleV{IfaceV{}, IfaceV{}}, cNext
		}
		ex.shallowTypes = shallow
		cp := ex.deepCopy(st, iv.V, iv.T, map[*Obj]*Obj{}, 0)
		ex.shallowTypes = nil
		return TupleV{IfaceV{T: iv.T, V: cp}, IfaceV{}}, cNext
	}
	psErr := func(st *State) Val {
		for _, p := range ex.Prog.AllPackages() {
			if p.Pkg.Path() == "github.com/mitchellh/pointerstructure" {
				if g, ok := p.Members["ErrNotFound"]; ok {
					if gg, ok := g.(*ssa.Global); ok {
						return ex.load(st, ex.globalPtr(st, gg))
					}
				}
			}
		}
		return ex.mkErr(st, "pointerstructure: not found")
	}
	I["github.com/mitchellh/pointerstructure.Get"] = func(ex *Executor, st *State, cc *CallCtx, args []Val) (Val, ctl) {
		ptr := strArg(args[1])
		if ptr == "?" {
			ex.abort("pointerstructure.Get with symbolic pointer")
		}
		if ptr != "" && !strings.HasPrefix(ptr, "/") {
			// pointerstructure.Parse: a non-empty pointer must start with "/" (a parse error, not ErrNotFound)
			return TupleV{IfaceV{}, ex.mkErr(st, "pointerstructure: parse error")}, cNext
		}
		iv, _ := args[0].(IfaceV)
		ex.psOther = false
		v, t, ok := ex.psGet(st, iv, iv.T, splitPointer(ptr))
		if !ok {
			if ex.psOther {
				return TupleV{IfaceV{}, ex.mkErr(st, "pointerstructure: invalid value kind")}, cNext
			}
			return TupleV{IfaceV{}, psErr(st)}, cNext
		}
		if _, isI := v.(IfaceV); isI {
			return TupleV{v, IfaceV{}}, cNext
		}
		return TupleV{IfaceV{T: t, V: v}, IfaceV{}}, cNext
	}
	I["github.com/mitchellh/pointerstructure.Set"] = func(ex *Executor, st *State, cc *CallCtx, args []Val) (Val, ctl) {
		ptr := strArg(args[1])
		segs := splitPointer(ptr)
		if len(segs) == 0 {
			ex.abort("pointerstructure.Set on the root")
		}
		iv, _ := args[0].(IfaceV)
		parent, pt, ok := ex.psGet(st, iv, iv.T, segs[:len(segs)-1])
		if !ok {
			return TupleV{IfaceV{}, psErr(st)}, cNext
		}
		last := segs[len(segs)-1]
		// dereference to the container
		for {
			if x, ok := parent.(IfaceV); ok && x.T != nil {
				parent, pt = x.V, x.T
				continue
			}
			break
		}
		switch x := parent.(type) {
		case MapV:
			nv := args[2]
			if mt, ok := pt.Underlying().(*types.Map); ok {
				if _, isI := mt.Elem().Underlying().(*types.Interface); !isI {
					if niv, ok := nv.(IfaceV); ok {
						nv = niv.V
					}
				}
			}
			ex.mapStore(st, x, smt.StrC(last), nv)
		case Ptr:
			st0 := ex.load(st, x)
			if sv, ok := st0.(*StructV); ok {
				et := pt.Underlying().(*types.Pointer).Elem()
				i := fieldIndex(et, last)
				if i < 0 {
					return TupleV{IfaceV{}, psErr(st)}, cNext
				}
				nv := args[2]
				if _, isI := et.Underlying().(*types.Struct).Field(i).Type().Underlying().(*types.Interface); !isI {
					if niv, ok := nv.(IfaceV); ok {
						nv = niv.V
					}
				}
				_ = sv
				ex.store(st, Ptr{x.Obj, pathAppend(x.Path, 'f', i)}, nv)
			} else {
				ex.abort("pointerstructure.Set into %T", st0)
			}
		default:
			ex.abort("pointerstructure.Set into %T", parent)
		}
		return TupleV{args[0], IfaceV{}}, cNext
	}
	// ---- strings on constants ----
	I["strings.Split"] = func(ex *Executor, st *State, cc *CallCtx, args []Val) (Val, ctl) {
		s, sep := args[0].(*smt.Term), args[1].(*smt.Term)
		if !s.IsConst() || !sep.IsConst() {
			ex.abort("strings.Split on a symbolic string")
		}
		parts := strings.Split(s.S, sep.S)
		es := make([]Val, len(parts))
		for i, p := range parts {
			es[i] = smt.StrC(p)
		}
		o := ex.newObj(types.NewArray(types.Typ[types.String], int64(len(es))), "split")
		st.Heap[o] = &ArrayV{es}
		return SliceV{Arr: o, Len: len(es), Cap: len(es)}, cNext
	}
	I["strings.Join"] = func(ex *Executor, st *State, cc *CallCtx, args []Val) (Val, ctl) {
		sep := args[1].(*smt.Term)
		acc := smt.StrC("")
		for i, e := range ex.sliceElems(st, args[0].(SliceV)) {
			if i > 0 {
				acc = smt.Concat(acc, sep)
			}
			acc = smt.Concat(acc, e.(*smt.Term))
		}
		return acc, cNext
	}
	I["strings.EqualFold"] = func(ex *Executor, st *State, cc *CallCtx, args []Val) (Val, ctl) {
		a, b := args[0].(*smt.Term), args[1].(*smt.Term)
		if a.IsConst() && b.IsConst() {
			return smt.BoolC(strings.EqualFold(a.S, b.S)), cNext
		}
		// ASCII case folding: equal after lower-casing (lower is idempotent, and "" is the only string folding to "")
		ex.usesLower = true
		la, lb := smt.Lower(a), smt.Lower(b)
		for _, x := range []*smt.Term{a, b} {
			if !x.IsConst() {
				st.addPC(smt.Eq(smt.Lower(smt.Lower(x)), smt.Lower(x)))
				st.addPC(smt.Eq(smt.Eq(smt.Lower(x), smt.StrC("")), smt.Eq(x, smt.StrC(""))))
			}
		}
		return smt.Eq(la, lb), cNext
	}
	// HasPrefix / HasSuffix with a literal affix: an uninterpreted predicate of (string, affix), decided for literals and for
	// concatenations that start / end with a literal; true only for non-empty strings. (Decoded models prepend / append
	// the affix so the native run agrees; two different affixes required of one string are outside what decoding handles.)
	affix := func(pre bool) Intrinsic {
		return func(ex *Executor, st *State, cc *CallCtx, args []Val) (Val, ctl) {
			str := func(v Val) *smt.Term {
				switch x := v.(type) {
				case *smt.Term:
					return x
				case BytesV:
					return ex.bytesContent(st, x)
				}
				ex.abort("HasPrefix/HasSuffix on unsupported value %T", v)
				return nil
			}
			x, p := str(args[0]), str(args[1])
			if !p.IsConst() {
				ex.abort("HasPrefix/HasSuffix with a symbolic affix")
			}
			if p.S == "" {
				return smt.True, cNext
			}
			if x.IsConst() {
				if pre {
					return smt.BoolC(strings.HasPrefix(x.S, p.S)), cNext
				}
				return smt.BoolC(strings.HasSuffix(x.S, p.S)), cNext
			}
			var segs []*smt.Term
			flattenConcat(x, &segs)
			edge := segs[0]
			if !pre {
				edge = segs[len(segs)-1]
			}
			if edge.IsConst() && edge.S != "" {
				if pre && (strings.HasPrefix(edge.S, p.S) || !strings.HasPrefix(p.S, edge.S)) {
					return smt.BoolC(strings.HasPrefix(edge.S, p.S)), cNext
				}
				if !pre && (strings.HasSuffix(edge.S, p.S) || !strings.HasSuffix(p.S, edge.S)) {
					return smt.BoolC(strings.HasSuffix(edge.S, p.S)), cNext
				}
			}
			name := "uf_hassuffix"
			if pre {
				name = "uf_hasprefix"
			}
			if x.Op == smt.OpVar {
				ex.affixes[name+"|"+p.S] = true
			}
			t := smt.App(name, smt.Bool, x, p)
			st.addPC(smt.Implies(t, smt.Not(smt.Eq(x, smt.StrC("")))))
			return t, cNext
		}
	}
	I["strings.HasPrefix"] = affix(true)
	I["bytes.HasPrefix"] = affix(true)
	I["strings.HasSuffix"] = affix(false)
	I["bytes.HasSuffix"] = affix(false)
	I["strings.ToLower"] = func(ex *Executor, st *State, cc *CallCtx, args []Val) (Val, ctl) {
		s := args[0].(*smt.Term)
		if !s.IsConst() {
			ex.usesLower = true
			st.addPC(smt.Eq(smt.Lower(smt.Lower(s)), smt.Lower(s)))
			st.addPC(smt.Eq(smt.Eq(smt.Lower(s), smt.StrC("")), smt.Eq(s, smt.StrC(""))))
		}
		return smt.Lower(s), cNext
	}
}

var gcSizes = types.SizesFor("gc", "amd64")

// addrOf: a concrete address for a location: objects are 16 MiB apart, offsets inside an object follow the gc/amd64 layout
func addrOf(p Ptr) int64 {
	off := int64(0)
	t := p.Obj.Typ
	if p.Path != "" {
		for _, step := range strings.Split(p.Path[1:], "/") {
			n := 0
			for _, c := range step[1:] {
				n = n*10 + int(c-'0')
			}
			if t == nil {
				off += int64(n) * 8
				continue
			}
			switch u := t.Underlying().(type) {
			case *types.Struct:
				fs := make([]*types.Var, u.NumFields())
				for i := range fs {
					fs[i] = u.Field(i)
				}
				if n < len(fs) {
					off += gcSizes.Offsetsof(fs)[n]
					t = fs[n].Type()
				} else {
					t = nil
				}
			case *types.Array:
				off += int64(n) * gcSizes.Sizeof(u.Elem())
				t = u.Elem()
			case *types.Slice:
				off += int64(n) * gcSizes.Sizeof(u.Elem())
				t = u.Elem()
			default:
				off += int64(n) * 8
				t = nil
			}
		}
	}
	return (int64(p.Obj.ID)+1)<<24 + off
}
