package symex

import (
	"path/filepath"
	"strconv"
	"fmt"
	"go/types"
	"strings"

	"verif/engine/smt"

	"golang.org/x/tools/go/ssa"
)

type CallCtx struct {
	Frame   *Frame
	Dest    ssa.Value
	Fn      *ssa.Function
	Advance bool
}

type Intrinsic func(ex *Executor, st *State, cc *CallCtx, args []Val) (Val, ctl)

func (ex *Executor) findIntrinsic(fn *ssa.Function) (Intrinsic, bool) {
	name := fn.String()
	if in, ok := ex.Intr[name]; ok {
		return in, true
	}
	if fn.Blocks == nil {
		// harness intrinsics are matched by bare name in any package
		if in, ok := ex.Intr["@"+fn.Name()]; ok {
			return in, true
		}
	}
	return nil, false
}

func strArg(v Val) string {
	t, ok := v.(*smt.Term)
	if ok && t.IsConst() && t.Sort == smt.String {
		return t.S
	}
	return "?"
}

var extraIntrinsics []func(ex *Executor)

func registerIntrinsics(ex *Executor) {
	I := ex.Intr
	registerExtlib(ex)
	for _, f := range extraIntrinsics {
		f(ex)
	}
	// ---- harness ----
	nd := func(kind string, sort smt.Sort) Intrinsic {
		return func(ex *Executor, st *State, cc *CallCtx, args []Val) (Val, ctl) {
			tag := ""
			if len(args) > 0 {
				tag = strArg(args[0])
			}
			v := smt.Var(fmt.Sprintf("nd%d_%s", len(st.ND), kind), sort)
			st.ND = append(st.ND[:len(st.ND):len(st.ND)], NDRec{Kind: kind, Tag: tag, T: v})
			return v, cNext
		}
	}
	I["@nondetInt"] = nd("int", smt.Int)
	I["@nondetInt64"] = nd("int", smt.Int)
	I["@nondetBool"] = nd("bool", smt.Bool)
	I["@nondetString"] = nd("string", smt.String)
	I["@nondetText"] = nd("string", smt.String)
	I["@nondetBytes"] = func(ex *Executor, st *State, cc *CallCtx, args []Val) (Val, ctl) {
		v := smt.Var(fmt.Sprintf("nd%d_%s", len(st.ND), "string"), smt.String)
		st.ND = append(st.ND[:len(st.ND):len(st.ND)], NDRec{Kind: "string", T: v})
		return BytesV{S: v, Nil: smt.False}, cNext
	}
	I["@verifAssume"] = func(ex *Executor, st *State, cc *CallCtx, args []Val) (Val, ctl) {
		c := args[0].(*smt.Term)
		if c.IsTrue() {
			return nil, cNext
		}
		if c.IsFalse() {
			panic(endPath{"infeasible", "assume false"})
		}
		r := ex.Solver.Check(st.PC, c)
		if r == smt.Unsat {
			panic(endPath{"infeasible", "assumption contradicts path"})
		}
		if r == smt.Unknown {
			ex.Stats.Unknown++
			st.Tainted = true
		}
		st.addPC(c)
		return nil, cNext
	}
	I["@verifAssert"] = func(ex *Executor, st *State, cc *CallCtx, args []Val) (Val, ctl) {
		c := args[0].(*smt.Term)
		id := strArg(args[1])
		ex.assert(st, c, id, "")
		return nil, cNext
	}
	I["@verifReach"] = func(ex *Executor, st *State, cc *CallCtx, args []Val) (Val, ctl) {
		ex.Stats.Reach[strArg(args[0])]++
		st.Reached = append(st.Reached[:len(st.Reached):len(st.Reached)], strArg(args[0]))
		return nil, cNext
	}
	I["@verifNote"] = func(ex *Executor, st *State, cc *CallCtx, args []Val) (Val, ctl) {
		st.note("%s", strArg(args[0]))
		return nil, cNext
	}
	I["@verifNoteInt"] = func(ex *Executor, st *State, cc *CallCtx, args []Val) (Val, ctl) {
		st.note("%s=%s", strArg(args[0]), showVal(args[1]))
		return nil, cNext
	}
	// verifIte(c, a, b int) int  — fork-free choice
	I["@verifIteInt"] = func(ex *Executor, st *State, cc *CallCtx, args []Val) (Val, ctl) {
		return smt.Ite(args[0].(*smt.Term), args[1].(*smt.Term), args[2].(*smt.Term)), cNext
	}
	I["@verifIteStr"] = I["@verifIteInt"]
	I["@verifAnd"] = func(ex *Executor, st *State, cc *CallCtx, args []Val) (Val, ctl) {
		return smt.And(args[0].(*smt.Term), args[1].(*smt.Term)), cNext
	}
	I["@verifOr"] = func(ex *Executor, st *State, cc *CallCtx, args []Val) (Val, ctl) {
		return smt.Or(args[0].(*smt.Term), args[1].(*smt.Term)), cNext
	}
	I["@verifImplies"] = func(ex *Executor, st *State, cc *CallCtx, args []Val) (Val, ctl) {
		return smt.Implies(args[0].(*smt.Term), args[1].(*smt.Term)), cNext
	}
	// verifSameObj(a, b any) bool : pointer identity of two interface/pointer values (fork-free)
	I["@verifSame"] = func(ex *Executor, st *State, cc *CallCtx, args []Val) (Val, ctl) {
		return smt.BoolC(sameVal(args[0], args[1])), cNext
	}
	// lock inspection for harness assertions: 0 free, 1 read-held, 2 write-held
	I["@verifLockState"] = func(ex *Executor, st *State, cc *CallCtx, args []Val) (Val, ctl) {
		p := args[0].(Ptr)
		l := ex.load(st, p).(*LockV)
		switch {
		case l.W:
			return smt.IntC(2), cNext
		case l.R > 0:
			return smt.IntC(1), cNext
		}
		return smt.IntC(0), cNext
	}
	I["@verifHeldLocks"] = func(ex *Executor, st *State, cc *CallCtx, args []Val) (Val, ctl) {
		return smt.IntC(int64(len(st.th().Locks))), cNext
	}
	I["@verifHeldExclusive"] = func(ex *Executor, st *State, cc *CallCtx, args []Val) (Val, ctl) {
		n := 0
		for _, m := range st.th().Locks {
			if m == 'W' {
				n++
			}
		}
		return smt.IntC(int64(n)), cNext
	}
	I["@verifNoLocksHeld"] = func(ex *Executor, st *State, cc *CallCtx, args []Val) (Val, ctl) {
		return smt.BoolC(len(st.th().Locks) == 0), cNext
	}
	I["@verifShare"] = func(ex *Executor, st *State, cc *CallCtx, args []Val) (Val, ctl) {
		ex.markShared(st, args[0])
		return nil, cNext
	}
	I["@verifParam"] = func(ex *Executor, st *State, cc *CallCtx, args []Val) (Val, ctl) {
		name := strArg(args[0])
		v, ok := ex.Params[name]
		if !ok {
			ex.abort("missing parameter -D %s", name)
		}
		return smt.IntC(int64(v)), cNext
	}
	I["@verifParBegin"] = parBegin
	I["@verifParMid"] = parMid
	I["@verifParEnd"] = parEnd
	// EO harness intrinsics: outside EO extraction they are inert
	I["@verifEvent"] = func(ex *Executor, st *State, cc *CallCtx, args []Val) (Val, ctl) { return nil, cNext }
	I["@verifNodeOutcome"] = func(ex *Executor, st *State, cc *CallCtx, args []Val) (Val, ctl) {
		v := smt.Var(fmt.Sprintf("nd%d_%s", len(st.ND), "int"), smt.Int)
		st.ND = append(st.ND[:len(st.ND):len(st.ND)], NDRec{Kind: "int", T: v})
		st.addPC(smt.Ge(v, smt.IntC(0)))
		st.addPC(smt.Le(v, smt.IntC(3)))
		return v, cNext
	}
	I["@verifCtxErrSet"] = func(ex *Executor, st *State, cc *CallCtx, args []Val) (Val, ctl) { return smt.False, cNext }
	I["@verifCtxDoneChan"] = func(ex *Executor, st *State, cc *CallCtx, args []Val) (Val, ctl) {
		if ex.eo != nil {
			ex.eo.ctxDone[chanID(args[0])] = true
		}
		return nil, cNext
	}
	I["@verifInterleave"] = func(ex *Executor, st *State, cc *CallCtx, args []Val) (Val, ctl) {
		st.Interleave = args[0].(*smt.Term).IsTrue()
		return nil, cNext
	}
	I["@verifGoOrder"] = func(ex *Executor, st *State, cc *CallCtx, args []Val) (Val, ctl) {
		st.GoOrder = args[0].(*smt.Term).IsTrue()
		return nil, cNext
	}
	I["@verifMapOrder"] = func(ex *Executor, st *State, cc *CallCtx, args []Val) (Val, ctl) {
		st.MapOrder = args[0].(*smt.Term).IsTrue()
		return nil, cNext
	}
	I["@verifBackground"] = func(ex *Executor, st *State, cc *CallCtx, args []Val) (Val, ctl) {
		return nil, cNext
	}
	I["@verifYield"] = func(ex *Executor, st *State, cc *CallCtx, args []Val) (Val, ctl) {
		return ex.yield(st, cc)
	}
	I["@verifSyncMapKeys"] = func(ex *Executor, st *State, cc *CallCtx, args []Val) (Val, ctl) {
		if ex.maybeSwitch(st) {
			return nil, cSwitch
		}
		p := args[0].(Ptr)
		sm := ex.load(st, p).(*SyncMapV)
		es := make([]Val, len(sm.Entries))
		for i, e := range sm.Entries {
			es[i] = e.K
		}
		anyT := types.NewInterfaceType(nil, nil)
		o := ex.newObj(types.NewArray(anyT, int64(len(es))), "syncmapkeys")
		st.Heap[o] = &ArrayV{es}
		return SliceV{Arr: o, Len: len(es), Cap: len(es)}, cNext
	}
	I["@verifOnceTake"] = func(ex *Executor, st *State, cc *CallCtx, args []Val) (Val, ctl) {
		p := args[0].(Ptr)
		o := ex.load(st, p).(*OnceV)
		if o.Done {
			return smt.False, cNext
		}
		ex.store(st, p, &OnceV{Done: true})
		return smt.True, cNext
	}

	// ---- sync ----
	I["(*sync.Mutex).Lock"] = func(ex *Executor, st *State, cc *CallCtx, args []Val) (Val, ctl) {
		return ex.lockOp(st, cc, args[0].(Ptr), 'W')
	}
	I["(*sync.RWMutex).Lock"] = I["(*sync.Mutex).Lock"]
	I["(*sync.RWMutex).RLock"] = func(ex *Executor, st *State, cc *CallCtx, args []Val) (Val, ctl) {
		return ex.lockOp(st, cc, args[0].(Ptr), 'R')
	}
	I["(*sync.Mutex).Unlock"] = func(ex *Executor, st *State, cc *CallCtx, args []Val) (Val, ctl) {
		return ex.unlockOp(st, args[0].(Ptr), 'W')
	}
	I["(*sync.RWMutex).Unlock"] = I["(*sync.Mutex).Unlock"]
	I["(*sync.RWMutex).RUnlock"] = func(ex *Executor, st *State, cc *CallCtx, args []Val) (Val, ctl) {
		return ex.unlockOp(st, args[0].(Ptr), 'R')
	}
	I["(*sync.WaitGroup).Add"] = func(ex *Executor, st *State, cc *CallCtx, args []Val) (Val, ctl) {
		p := args[0].(Ptr)
		n, ok := args[1].(*smt.Term).Int64()
		if !ok {
			ex.abort("WaitGroup.Add symbolic")
		}
		w := ex.load(st, p).(*WaitGroupV)
		if w.N+int(n) < 0 {
			ex.goPanic(st, "sync: negative WaitGroup counter")
		}
		ex.store(st, p, &WaitGroupV{N: w.N + int(n)})
		return nil, cNext
	}
	I["(*sync.WaitGroup).Done"] = func(ex *Executor, st *State, cc *CallCtx, args []Val) (Val, ctl) {
		p := args[0].(Ptr)
		w := ex.load(st, p).(*WaitGroupV)
		if w.N-1 < 0 {
			ex.goPanic(st, "sync: negative WaitGroup counter")
		}
		ex.store(st, p, &WaitGroupV{N: w.N - 1})
		return nil, cNext
	}
	I["(*sync.WaitGroup).Wait"] = func(ex *Executor, st *State, cc *CallCtx, args []Val) (Val, ctl) {
		p := args[0].(Ptr)
		w := ex.load(st, p).(*WaitGroupV)
		if w.N == 0 {
			return nil, cNext
		}
		t := st.th()
		t.BlockWhy = "WaitGroup.Wait in " + cc.Frame.Fn.String()
		t.BlockKind, t.BlockPtr = "wg", p
		return nil, cBlock
	}
	I["(*sync.Map).Load"] = func(ex *Executor, st *State, cc *CallCtx, args []Val) (Val, ctl) {
		if ex.maybeSwitch(st) {
			return nil, cSwitch
		}
		p := args[0].(Ptr)
		sm := ex.load(st, p).(*SyncMapV)
		i := ex.findEntry(st, sm.Entries, args[1])
		if i < 0 {
			return TupleV{IfaceV{}, smt.False}, cNext
		}
		return TupleV{sm.Entries[i].V, smt.True}, cNext
	}
	I["(*sync.Map).Store"] = func(ex *Executor, st *State, cc *CallCtx, args []Val) (Val, ctl) {
		if ex.maybeSwitch(st) {
			return nil, cSwitch
		}
		p := args[0].(Ptr)
		sm := ex.load(st, p).(*SyncMapV)
		i := ex.findEntry(st, sm.Entries, args[1])
		ne := append([]MapEntry(nil), sm.Entries...)
		if i >= 0 {
			ne[i] = MapEntry{sm.Entries[i].K, args[2]}
		} else {
			ne = append(ne, MapEntry{args[1], args[2]})
		}
		if st.LogOn && p.Obj.Shared {
			ex.markShared(st, args[2])
		}
		ex.store(st, p, &SyncMapV{ne})
		return nil, cNext
	}
	I["(*sync.Map).Delete"] = func(ex *Executor, st *State, cc *CallCtx, args []Val) (Val, ctl) {
		if ex.maybeSwitch(st) {
			return nil, cSwitch
		}
		p := args[0].(Ptr)
		sm := ex.load(st, p).(*SyncMapV)
		i := ex.findEntry(st, sm.Entries, args[1])
		if i < 0 {
			return nil, cNext
		}
		ne := append([]MapEntry(nil), sm.Entries[:i]...)
		ne = append(ne, sm.Entries[i+1:]...)
		ex.store(st, p, &SyncMapV{ne})
		return nil, cNext
	}

	I["(*sync.Map).LoadAndDelete"] = func(ex *Executor, st *State, cc *CallCtx, args []Val) (Val, ctl) {
		if ex.maybeSwitch(st) {
			return nil, cSwitch
		}
		p := args[0].(Ptr)
		sm := ex.load(st, p).(*SyncMapV)
		i := ex.findEntry(st, sm.Entries, args[1])
		if i < 0 {
			return TupleV{IfaceV{}, smt.False}, cNext
		}
		v := sm.Entries[i].V
		ne := append([]MapEntry(nil), sm.Entries[:i]...)
		ne = append(ne, sm.Entries[i+1:]...)
		ex.store(st, p, &SyncMapV{ne})
		return TupleV{v, smt.True}, cNext
	}
	I["(*sync.Map).LoadOrStore"] = func(ex *Executor, st *State, cc *CallCtx, args []Val) (Val, ctl) {
		if ex.maybeSwitch(st) {
			return nil, cSwitch
		}
		p := args[0].(Ptr)
		sm := ex.load(st, p).(*SyncMapV)
		i := ex.findEntry(st, sm.Entries, args[1])
		if i >= 0 {
			return TupleV{sm.Entries[i].V, smt.True}, cNext
		}
		ne := append(append([]MapEntry(nil), sm.Entries...), MapEntry{args[1], args[2]})
		ex.store(st, p, &SyncMapV{ne})
		return TupleV{args[2], smt.False}, cNext
	}
	I["(*sync.Map).Swap"] = func(ex *Executor, st *State, cc *CallCtx, args []Val) (Val, ctl) {
		if ex.maybeSwitch(st) {
			return nil, cSwitch
		}
		p := args[0].(Ptr)
		sm := ex.load(st, p).(*SyncMapV)
		i := ex.findEntry(st, sm.Entries, args[1])
		ne := append([]MapEntry(nil), sm.Entries...)
		if i >= 0 {
			old := ne[i].V
			ne[i] = MapEntry{ne[i].K, args[2]}
			ex.store(st, p, &SyncMapV{ne})
			return TupleV{old, smt.True}, cNext
		}
		ne = append(ne, MapEntry{args[1], args[2]})
		ex.store(st, p, &SyncMapV{ne})
		return TupleV{IfaceV{}, smt.False}, cNext
	}
	// ---- sync/atomic: sequentially consistent cells (atomic by contract: not part of the access log) ----
	for _, ty := range []string{"Int64", "Int32", "Uint64", "Uint32"} {
		I["sync/atomic.Add"+ty] = func(ex *Executor, st *State, cc *CallCtx, args []Val) (Val, ctl) {
			p := args[0].(Ptr)
			save := st.LogOn
			st.LogOn = false
			v := smt.Add(ex.load(st, p).(*smt.Term), args[1].(*smt.Term))
			ex.store(st, p, v)
			st.LogOn = save
			return v, cNext
		}
		I["sync/atomic.Load"+ty] = func(ex *Executor, st *State, cc *CallCtx, args []Val) (Val, ctl) {
			save := st.LogOn
			st.LogOn = false
			v := ex.load(st, args[0].(Ptr))
			st.LogOn = save
			return v, cNext
		}
		I["sync/atomic.Store"+ty] = func(ex *Executor, st *State, cc *CallCtx, args []Val) (Val, ctl) {
			save := st.LogOn
			st.LogOn = false
			ex.store(st, args[0].(Ptr), args[1])
			st.LogOn = save
			return nil, cNext
		}
		I["sync/atomic.CompareAndSwap"+ty] = func(ex *Executor, st *State, cc *CallCtx, args []Val) (Val, ctl) {
			p := args[0].(Ptr)
			save := st.LogOn
			st.LogOn = false
			defer func() { st.LogOn = save }()
			cur := ex.load(st, p).(*smt.Term)
			if ex.branch(st, smt.Eq(cur, args[1].(*smt.Term))) {
				ex.store(st, p, args[2])
				return smt.True, cNext
			}
			return smt.False, cNext
		}
	}
	// pointer cells (atomic.Pointer[T] is built on these); in interleaving mode every access is a point at which another
	// goroutine may run
	I["sync/atomic.LoadPointer"] = func(ex *Executor, st *State, cc *CallCtx, args []Val) (Val, ctl) {
		if ex.maybeSwitch(st) {
			return nil, cSwitch
		}
		save := st.LogOn
		st.LogOn = false
		v := ex.load(st, args[0].(Ptr))
		st.LogOn = save
		return v, cNext
	}
	I["sync/atomic.StorePointer"] = func(ex *Executor, st *State, cc *CallCtx, args []Val) (Val, ctl) {
		if ex.maybeSwitch(st) {
			return nil, cSwitch
		}
		save := st.LogOn
		st.LogOn = false
		ex.store(st, args[0].(Ptr), args[1])
		st.LogOn = save
		return nil, cNext
	}
	I["sync/atomic.SwapPointer"] = func(ex *Executor, st *State, cc *CallCtx, args []Val) (Val, ctl) {
		if ex.maybeSwitch(st) {
			return nil, cSwitch
		}
		save := st.LogOn
		st.LogOn = false
		old := ex.load(st, args[0].(Ptr))
		ex.store(st, args[0].(Ptr), args[1])
		st.LogOn = save
		return old, cNext
	}
	I["sync/atomic.CompareAndSwapPointer"] = func(ex *Executor, st *State, cc *CallCtx, args []Val) (Val, ctl) {
		if ex.maybeSwitch(st) {
			return nil, cSwitch
		}
		save := st.LogOn
		st.LogOn = false
		defer func() { st.LogOn = save }()
		cur := ex.load(st, args[0].(Ptr))
		if ex.branch(st, ex.valEq(cur, args[1])) {
			ex.store(st, args[0].(Ptr), args[2])
			return smt.True, cNext
		}
		return smt.False, cNext
	}
	// ---- errors / fmt ----
	I["fmt.Errorf"] = func(ex *Executor, st *State, cc *CallCtx, args []Val) (Val, ctl) {
		format := strArg(args[0])
		var va []Val
		if s, ok := args[1].(SliceV); ok {
			va = ex.sliceElems(st, s)
		}
		// map verbs to args
		var wrapped []Val
		ai := 0
		for i := 0; i < len(format); i++ {
			if format[i] != '%' {
				continue
			}
			i++
			for i < len(format) && strings.ContainsRune("+-# 0123456789.", rune(format[i])) {
				i++
			}
			if i >= len(format) {
				break
			}
			if format[i] == '%' {
				continue
			}
			if format[i] == 'w' && ai < len(va) {
				if iv, ok := va[ai].(IfaceV); ok && iv.T != nil {
					wrapped = append(wrapped, iv)
				}
			}
			ai++
		}
		msg := smt.StrC(format)
		errT := types.Universe.Lookup("error").Type()
		switch len(wrapped) {
		case 0:
			es := ex.lookupType("errors", "errorString")
			p := ex.alloc(st, es, "Errorf", &StructV{[]Val{msg}})
			return IfaceV{T: types.NewPointer(es), V: p}, cNext
		case 1:
			we := ex.lookupType("fmt", "wrapError")
			p := ex.alloc(st, we, "Errorf%w", &StructV{[]Val{msg, wrapped[0]}})
			return IfaceV{T: types.NewPointer(we), V: p}, cNext
		default:
			we := ex.lookupType("fmt", "wrapErrors")
			o := ex.newObj(types.NewArray(errT, int64(len(wrapped))), "wrapErrors")
			st.Heap[o] = &ArrayV{wrapped}
			p := ex.alloc(st, we, "Errorf%w%w", &StructV{[]Val{msg, SliceV{Arr: o, Len: len(wrapped), Cap: len(wrapped)}}})
			return IfaceV{T: types.NewPointer(we), V: p}, cNext
		}
	}
	I["fmt.Sprintf"] = func(ex *Executor, st *State, cc *CallCtx, args []Val) (Val, ctl) {
		format := strArg(args[0])
		var va []Val
		if s, ok := args[1].(SliceV); ok {
			va = ex.sliceElems(st, s)
		}
		if ft, ok := args[0].(*smt.Term); ok && !ft.IsConst() {
			// a format string that is data: the result is some function of it (verbs in it are interpreted), not the text itself
			acc := smt.App("sprintf_fmt", smt.String, ft)
			for _, a := range va {
				if iv, ok := a.(IfaceV); ok {
					if t, ok := iv.V.(*smt.Term); ok && t.Sort == smt.String {
						acc = smt.App("enc2", smt.String, acc, t)
					}
				}
			}
			return acc, cNext
		}
		// only string-ish %s / %d / %v / %q arguments that are scalar terms are modelled
		var out *smt.Term = smt.StrC("")
		ai := 0
		lit := ""
		for i := 0; i < len(format); i++ {
			if format[i] != '%' {
				lit += string(format[i])
				continue
			}
			i++
			if i < len(format) && format[i] == '%' {
				lit += "%"
				continue
			}
			for i < len(format) && strings.ContainsRune("+-# 0123456789.", rune(format[i])) {
				i++
			}
			out = smt.Concat(out, smt.StrC(lit))
			lit = ""
			verb := byte('v')
			if i < len(format) {
				verb = format[i]
			}
			var at *smt.Term
			if ai < len(va) {
				if iv, ok := va[ai].(IfaceV); ok {
					if b, ok := iv.V.(BytesV); ok {
						iv.V = ex.bytesContent(st, b)
						if verb == 'v' {
							// %v of a byte slice prints the numbers, not the text
							iv.V = smt.App("gosprint_bytes", smt.String, iv.V.(*smt.Term))
						}
					}
					if t, ok := iv.V.(*smt.Term); ok {
						if t.Sort == smt.String {
							at = t
							if verb == 'q' {
								// Go-syntax quoting: not the text itself (and not JSON quoting either)
								if t.IsConst() {
									at = smt.StrC(strconv.Quote(t.S))
								} else {
									at = smt.App("goquote", smt.String, t)
								}
							}
						} else if t.Sort == smt.Int {
							if t.IsConst() {
								at = smt.StrC(t.I.String())
							} else {
								at = smt.App("itoa", smt.String, t)
							}
						}
					}
				}
			}
			if at == nil {
				at = st.fresh("sprintf_arg", smt.String)
			}
			out = smt.Concat(out, at)
			ai++
		}
		out = smt.Concat(out, smt.StrC(lit))
		return out, cNext
	}

	// fmt.Sprint of one value: a string prints as itself, a byte slice as its numbers
	I["fmt.Sprint"] = func(ex *Executor, st *State, cc *CallCtx, args []Val) (Val, ctl) {
		var va []Val
		if s, ok := args[0].(SliceV); ok {
			va = ex.sliceElems(st, s)
		}
		if len(va) != 1 {
			ex.abort("fmt.Sprint with %d operands is not modelled", len(va))
		}
		iv, _ := va[0].(IfaceV)
		switch x := iv.V.(type) {
		case *smt.Term:
			if x.Sort == smt.String {
				return x, cNext
			}
			if x.Sort == smt.Int {
				return smt.App("itoa", smt.String, x), cNext
			}
		case BytesV:
			return smt.App("gosprint_bytes", smt.String, ex.bytesContent(st, x)), cNext
		case SliceV:
			if c, ok := ex.convert(st, x, nil, types.Typ[types.String]).(*smt.Term); ok {
				return smt.App("gosprint_bytes", smt.String, c), cNext
			}
		}
		return st.fresh("sprint", smt.String), cNext
	}
	// string helpers evaluated on literals (file names, tags); symbolic arguments are not modelled
	constStr := func(ex *Executor, name string, args []Val) []string {
		var out []string
		for _, a := range args {
			t, ok := a.(*smt.Term)
			if !ok || !t.IsConst() || t.Sort != smt.String {
				ex.abort("%s with a symbolic argument", name)
			}
			out = append(out, t.S)
		}
		return out
	}
	I["strings.Cut"] = func(ex *Executor, st *State, cc *CallCtx, args []Val) (Val, ctl) {
		a := constStr(ex, "strings.Cut", args)
		before, after, found := strings.Cut(a[0], a[1])
		return TupleV{smt.StrC(before), smt.StrC(after), smt.BoolC(found)}, cNext
	}
	I["strings.Index"] = func(ex *Executor, st *State, cc *CallCtx, args []Val) (Val, ctl) {
		a := constStr(ex, "strings.Index", args)
		return smt.IntC(int64(strings.Index(a[0], a[1]))), cNext
	}
	I["strings.LastIndex"] = func(ex *Executor, st *State, cc *CallCtx, args []Val) (Val, ctl) {
		a := constStr(ex, "strings.LastIndex", args)
		return smt.IntC(int64(strings.LastIndex(a[0], a[1]))), cNext
	}
	I["strings.Contains"] = func(ex *Executor, st *State, cc *CallCtx, args []Val) (Val, ctl) {
		a := constStr(ex, "strings.Contains", args)
		return smt.BoolC(strings.Contains(a[0], a[1])), cNext
	}
	I["strings.TrimSuffix"] = func(ex *Executor, st *State, cc *CallCtx, args []Val) (Val, ctl) {
		a := constStr(ex, "strings.TrimSuffix", args)
		return smt.StrC(strings.TrimSuffix(a[0], a[1])), cNext
	}
	I["strings.TrimPrefix"] = func(ex *Executor, st *State, cc *CallCtx, args []Val) (Val, ctl) {
		a := constStr(ex, "strings.TrimPrefix", args)
		return smt.StrC(strings.TrimPrefix(a[0], a[1])), cNext
	}
	I["path/filepath.Ext"] = func(ex *Executor, st *State, cc *CallCtx, args []Val) (Val, ctl) {
		a := constStr(ex, "filepath.Ext", args)
		return smt.StrC(filepath.Ext(a[0])), cNext
	}
	// strings.NewReplacer(...).Replace(s): some function of s (which pairs are replaced is not interpreted)
	I["strings.NewReplacer"] = func(ex *Executor, st *State, cc *CallCtx, args []Val) (Val, ctl) {
		t := ex.lookupType("strings", "Replacer")
		return ex.alloc(st, t, "strings.Replacer", ex.zero(t)), cNext
	}
	I["(*strings.Replacer).Replace"] = func(ex *Executor, st *State, cc *CallCtx, args []Val) (Val, ctl) {
		x := args[1].(*smt.Term)
		return smt.App("uf_replace", smt.String, x), cNext
	}
	// verifJSONEquivalent(a, b): symbolically "the same text" (the encoder is uninterpreted); natively "both are one valid JSON
	// line and decode to the same value" — which is what the property asks for, so a change of escaping style that keeps the
	// document equivalent does not replay
	I["@verifJSONEquivalent"] = func(ex *Executor, st *State, cc *CallCtx, args []Val) (Val, ctl) {
		return smt.Eq(args[0].(*smt.Term), args[1].(*smt.Term)), cNext
	}
	// strings.TrimSpace: computed on literals; on symbolic text an idempotent uninterpreted function (a string may or may not
	// carry surrounding white space)
	I["strings.TrimSpace"] = func(ex *Executor, st *State, cc *CallCtx, args []Val) (Val, ctl) {
		x := args[0].(*smt.Term)
		if x.IsConst() {
			return smt.StrC(strings.TrimSpace(x.S)), cNext
		}
		t := smt.App("uf_trim", smt.String, x)
		st.addPC(smt.Eq(smt.App("uf_trim", smt.String, t), t))
		st.addPC(smt.Implies(smt.Eq(x, smt.StrC("")), smt.Eq(t, smt.StrC(""))))
		return t, cNext
	}
	// ---- time ----
	I["time.Now"] = func(ex *Executor, st *State, cc *CallCtx, args []Val) (Val, ctl) {
		return ex.timeNow(st), cNext
	}
	// time.After(d): a timer channel that has already fired (value buffered) or has not fired yet — the
	// environment's choice. A timer that never fires at all is excluded by the harness (d > 0 always elapses).
	// armed timers: the channels of timers that were started and have not fired yet (time.After, time.NewTimer, Timer.Reset)
	armed := func(st *State) []ChanV {
		l, _ := st.Ghost["timer.chans"].([]ChanV)
		return l
	}
	arm := func(st *State, c ChanV) {
		for _, x := range armed(st) {
			if x.Obj == c.Obj {
				return
			}
		}
		st.Ghost["timer.chans"] = append(append([]ChanV(nil), armed(st)...), c)
	}
	disarm := func(st *State, c ChanV) bool {
		var out []ChanV
		was := false
		for _, x := range armed(st) {
			if x.Obj == c.Obj {
				was = true
				continue
			}
			out = append(out, x)
		}
		st.Ghost["timer.chans"] = out
		return was
	}
	// start: the timer has already fired (value buffered) or has not fired yet — the environment's choice
	start := func(ex *Executor, st *State, c ChanV) {
		fired := smt.Var(fmt.Sprintf("nd%d_%s", len(st.ND), "timerfired"), smt.Bool)
		f := ex.branch(st, fired)
		st.ND = append(st.ND[:len(st.ND):len(st.ND)], NDRec{Kind: "ext-bool", Tag: "time.After fired", T: fired})
		if f {
			ex.setChan(st, c, &ChanData{Cap: 1, Buf: []Val{ex.timeNow(st)}})
			st.note("timer fired")
		} else {
			ex.setChan(st, c, &ChanData{Cap: 1})
			arm(st, c)
			st.note("timer pending")
		}
	}
	// time.After(d): a timer channel that has already fired or has not fired yet. A timer that never fires at all is
	// excluded by the harness (d > 0 always elapses: verifFireTimer).
	I["time.After"] = func(ex *Executor, st *State, cc *CallCtx, args []Val) (Val, ctl) {
		o := ex.newObj(cc.Fn.Signature.Results().At(0).Type(), "timer")
		st.Heap[o] = &ChanData{Cap: 1}
		start(ex, st, ChanV{o})
		return ChanV{o}, cNext
	}
	// time.NewTimer / (*Timer).Reset / (*Timer).Stop (Go 1.23 semantics: after Stop or Reset no stale value is left in C)
	timerChan := func(ex *Executor, st *State, p Ptr) ChanV {
		tt := ex.lookupType("time", "Timer").Underlying().(*types.Struct)
		sv := ex.load(st, p).(*StructV)
		for i := 0; i < tt.NumFields(); i++ {
			if tt.Field(i).Name() == "C" {
				return sv.Fields[i].(ChanV)
			}
		}
		ex.abort("time.Timer without C")
		return ChanV{}
	}
	I["time.NewTimer"] = func(ex *Executor, st *State, cc *CallCtx, args []Val) (Val, ctl) {
		tn := ex.lookupType("time", "Timer")
		tt := tn.Underlying().(*types.Struct)
		sv := ex.zero(tn).(*StructV)
		var c ChanV
		for i := 0; i < tt.NumFields(); i++ {
			if tt.Field(i).Name() == "C" {
				o := ex.newObj(tt.Field(i).Type(), "timer")
				st.Heap[o] = &ChanData{Cap: 1}
				c = ChanV{o}
				sv.Fields[i] = c
			}
		}
		p := ex.alloc(st, tn, "time.Timer", sv)
		start(ex, st, c)
		return p, cNext
	}
	I["(*time.Timer).Stop"] = func(ex *Executor, st *State, cc *CallCtx, args []Val) (Val, ctl) {
		c := timerChan(ex, st, args[0].(Ptr))
		was := disarm(st, c)
		ex.setChan(st, c, &ChanData{Cap: 1})
		return smt.BoolC(was), cNext
	}
	I["(*time.Timer).Reset"] = func(ex *Executor, st *State, cc *CallCtx, args []Val) (Val, ctl) {
		c := timerChan(ex, st, args[0].(Ptr))
		was := disarm(st, c)
		start(ex, st, c)
		return smt.BoolC(was), cNext
	}
	// verifFireTimer(): every armed timer fires now (used by the harness when nothing else can make progress)
	I["@verifFireTimer"] = func(ex *Executor, st *State, cc *CallCtx, args []Val) (Val, ctl) {
		for _, c := range armed(st) {
			d := ex.chanData(st, c)
			if len(d.Buf) == 0 {
				if !ex.trySend(st, c, ex.timeNow(st)) {
					ex.setChan(st, c, &ChanData{Cap: 1, Buf: []Val{smt.IntC(1)}})
				}
			}
		}
		st.Ghost["timer.chans"] = []ChanV(nil)
		return nil, cNext
	}
	I["time.Since"] = func(ex *Executor, st *State, cc *CallCtx, args []Val) (Val, ctl) {
		return smt.Sub(ex.timeNow(st), args[0].(*smt.Term)), cNext
	}
	I["(time.Time).Add"] = func(ex *Executor, st *State, cc *CallCtx, args []Val) (Val, ctl) {
		return smt.Add(args[0].(*smt.Term), args[1].(*smt.Term)), cNext
	}
	I["(time.Time).Sub"] = func(ex *Executor, st *State, cc *CallCtx, args []Val) (Val, ctl) {
		return smt.Sub(args[0].(*smt.Term), args[1].(*smt.Term)), cNext
	}
	I["(time.Time).After"] = func(ex *Executor, st *State, cc *CallCtx, args []Val) (Val, ctl) {
		return smt.Gt(args[0].(*smt.Term), args[1].(*smt.Term)), cNext
	}
	I["(time.Time).Before"] = func(ex *Executor, st *State, cc *CallCtx, args []Val) (Val, ctl) {
		return smt.Lt(args[0].(*smt.Term), args[1].(*smt.Term)), cNext
	}
	I["(time.Time).Equal"] = func(ex *Executor, st *State, cc *CallCtx, args []Val) (Val, ctl) {
		return smt.Eq(args[0].(*smt.Term), args[1].(*smt.Term)), cNext
	}
	I["(time.Time).IsZero"] = func(ex *Executor, st *State, cc *CallCtx, args []Val) (Val, ctl) {
		return smt.Eq(args[0].(*smt.Term), ZeroTime()), cNext
	}
	I["(time.Time).UnixNano"] = func(ex *Executor, st *State, cc *CallCtx, args []Val) (Val, ctl) {
		return args[0].(*smt.Term), cNext
	}
	I["(time.Time).Unix"] = func(ex *Executor, st *State, cc *CallCtx, args []Val) (Val, ctl) {
		// whole seconds since the epoch, rounded down (instants are integers of nanoseconds)
		return smt.Div(args[0].(*smt.Term), smt.IntC(1000000000)), cNext
	}
	I["(time.Time).UnixMilli"] = func(ex *Executor, st *State, cc *CallCtx, args []Val) (Val, ctl) {
		return smt.Div(args[0].(*smt.Term), smt.IntC(1000000)), cNext
	}
	I["(time.Time).UnixMicro"] = func(ex *Executor, st *State, cc *CallCtx, args []Val) (Val, ctl) {
		return smt.Div(args[0].(*smt.Term), smt.IntC(1000)), cNext
	}
	I["(time.Time).UTC"] = func(ex *Executor, st *State, cc *CallCtx, args []Val) (Val, ctl) {
		return args[0], cNext
	}
	I["time.Unix"] = func(ex *Executor, st *State, cc *CallCtx, args []Val) (Val, ctl) {
		return smt.Add(smt.Mul(args[0].(*smt.Term), smt.IntC(1000000000)), args[1].(*smt.Term)), cNext
	}
	I["strconv.FormatInt"] = func(ex *Executor, st *State, cc *CallCtx, args []Val) (Val, ctl) {
		t := args[0].(*smt.Term)
		if t.IsConst() {
			return smt.StrC(t.I.String()), cNext
		}
		return smt.App("itoa", smt.String, t), cNext
	}
	I["strconv.Itoa"] = I["strconv.FormatInt"]
}

func (ex *Executor) timeNow(st *State) *smt.Term {
	prev, _ := st.Ghost["time.now"].(*smt.Term)
	v := smt.Var(fmt.Sprintf("now%d", len(st.ND)), smt.Int)
	st.ND = append(st.ND[:len(st.ND):len(st.ND)], NDRec{Kind: "now", T: v})
	if prev != nil {
		// A-clock-strict: successive readings of the clock differ (nanosecond resolution)
		st.addPC(smt.Lt(prev, v))
	} else {
		st.addPC(smt.Lt(smt.IntC(0), v))
	}
	st.Ghost["time.now"] = v
	return v
}

// assert checks an obligation on the current path.
func (ex *Executor) assert(st *State, c *smt.Term, id, msg string) {
	ex.Stats.Obligations++
	ex.Stats.AssertIDs[id]++
	if c.IsTrue() {
		ex.Stats.Discharged++
		ex.Stats.TrivialAsserts++
		return
	}
	nc := smt.Not(c)
	r := smt.Sat
	if !c.IsFalse() {
		r = ex.Solver.Check(st.PC, nc)
	}
	switch r {
	case smt.Unsat:
		ex.Stats.Discharged++
	case smt.Sat:
		ex.violate(st, id, "assertion "+id+" can fail "+msg, nc)
		if c.IsFalse() {
			panic(endPath{"violation", id})
		}
		// continue under the assumption that it held
		if ex.Solver.Check(st.PC, c) == smt.Unsat {
			panic(endPath{"violation", id})
		}
		st.addPC(c)
	default:
		ex.Stats.Unknown++
		ex.AbortMsgs = append(ex.AbortMsgs, "assertion "+id+": solver unknown")
		st.addPC(c)
	}
}

// ---------- locks ----------

// maybeSwitch: at a lock operation, optionally (solver-visible Boolean choice) hand the processor to another goroutine.
// Under data-race freedom the only schedule points that matter are synchronisation operations.
func (ex *Executor) maybeSwitch(st *State) bool {
	t := st.th()
	if !st.Interleave {
		return false
	}
	if t.SkipSwitch {
		t.SkipSwitch = false
		return false
	}
	if st.Switches >= ex.MaxSwitches {
		return false
	}
	other := -1
	n := len(st.Threads)
	for k := 1; k < n; k++ {
		i := (st.Cur + k) % n
		o := st.Threads[i]
		if o.Status == Runnable || (o.Status == Blocked && ex.canResume(st, o)) {
			other = i
			break
		}
	}
	if other < 0 {
		return false
	}
	sw := smt.Var(fmt.Sprintf("nd%d_%s", len(st.ND), "sched"), smt.Bool)
	doSwitch := ex.branch(st, sw)
	st.ND = append(st.ND[:len(st.ND):len(st.ND)], NDRec{Kind: "sched", Tag: fmt.Sprintf("T%d@%s", t.ID, st.fr().Fn.Name()), T: sw})
	if !doSwitch {
		return false
	}
	st.Switches++
	t.SkipSwitch = true
	if st.Threads[other].Status == Blocked {
		st.Threads[other].Status = Runnable
	}
	st.note("switch T%d->T%d at %s", t.ID, st.Threads[other].ID, st.fr().Fn.Name())
	st.Cur = other
	return true
}

func (ex *Executor) lockOp(st *State, cc *CallCtx, p Ptr, mode byte) (Val, ctl) {
	if p.Obj == nil {
		ex.goPanic(st, "lock on nil mutex")
	}
	if ex.maybeSwitch(st) {
		return nil, cSwitch
	}
	t := st.th()
	key := lockKey(p)
	l := ex.load(st, p).(*LockV)
	if held, ok := t.Locks[key]; ok {
		// re-acquisition by the same goroutine
		if mode == 'W' || held == 'W' {
			ex.violate(st, "self-deadlock", fmt.Sprintf("goroutine acquires %s (%c) while already holding it (%c): %s", key, mode, held, st.stackString()), nil)
			panic(endPath{"deadlock", "self-deadlock on " + key})
		}
		// recursive read lock: deadlocks if a writer queues in between (Go RWMutex is writer-preferring)
		ex.violate(st, "recursive-rlock", fmt.Sprintf("goroutine re-acquires read lock %s recursively: deadlocks with a queued writer: %s", key, st.stackString()), nil)
		ex.store(st, p, &LockV{W: false, R: l.R + 1})
		t.Locks[key+"#2"] = 'R'
		return nil, cNext
	}
	writerWaiting := false
	if mode == 'R' {
		// Go's RWMutex is writer-preferring: a pending Lock blocks new readers
		for _, o := range st.Threads {
			if o != t && o.Status == Blocked && o.BlockKind == "lock" && o.BlockMode == 'W' && lockKey(o.BlockPtr) == key {
				writerWaiting = true
			}
		}
	}
	if l.W || (mode == 'W' && l.R > 0) || writerWaiting {
		t.BlockWhy = fmt.Sprintf("lock %s (%c) in %s", key, mode, cc.Frame.Fn)
		t.BlockKind, t.BlockPtr, t.BlockMode = "lock", p, mode
		return nil, cBlock
	}
	if mode == 'W' {
		ex.store(st, p, &LockV{W: true})
	} else {
		ex.store(st, p, &LockV{R: l.R + 1})
	}
	t.Locks[key] = mode
	return nil, cNext
}

func (ex *Executor) unlockOp(st *State, p Ptr, mode byte) (Val, ctl) {
	if ex.maybeSwitch(st) {
		return nil, cSwitch
	}
	t := st.th()
	key := lockKey(p)
	l := ex.load(st, p).(*LockV)
	if mode == 'W' {
		if !l.W {
			ex.goPanic(st, "sync: unlock of unlocked mutex")
		}
		ex.store(st, p, &LockV{})
		delete(t.Locks, key)
		return nil, cNext
	}
	if l.R <= 0 {
		ex.goPanic(st, "sync: RUnlock of unlocked RWMutex")
	}
	ex.store(st, p, &LockV{R: l.R - 1})
	if _, ok := t.Locks[key+"#2"]; ok {
		delete(t.Locks, key+"#2")
	} else {
		delete(t.Locks, key)
	}
	return nil, cNext
}

func (ex *Executor) blockCondChanged(st *State, t *Thread) bool {
	switch t.BlockKind {
	case "lock":
		l := st.Heap[t.BlockPtr.Obj]
		lv := getPath(l, parsePath(t.BlockPtr.Path)).(*LockV)
		if t.BlockMode == 'W' {
			return !lv.W && lv.R == 0
		}
		if lv.W {
			return false
		}
		// a reader stays parked behind a pending writer (writer preference)
		for _, o := range st.Threads {
			if o != t && o.Status == Blocked && o.BlockKind == "lock" && o.BlockMode == 'W' && lockKey(o.BlockPtr) == lockKey(t.BlockPtr) {
				return false
			}
		}
		return true
	case "wg":
		w := getPath(st.Heap[t.BlockPtr.Obj], parsePath(t.BlockPtr.Path)).(*WaitGroupV)
		return w.N == 0
	case "yield":
		for _, o := range st.Threads {
			if o != t && o.Status == Runnable {
				return false
			}
		}
		// nobody else can run: resume (the others are blocked or done)
		t.YieldDone = true
		return true
	}
	return false
}

// yield lets every other runnable thread run until it blocks or ends.
func (ex *Executor) yield(st *State, cc *CallCtx) (Val, ctl) {
	t := st.th()
	if t.YieldDone {
		t.YieldDone = false
		return nil, cNext
	}
	other := false
	for _, o := range st.Threads {
		if o != t && (o.Status == Runnable || (o.Status == Blocked && ex.canResume(st, o))) {
			if o.Status == Blocked {
				o.Status = Runnable
			}
			other = true
		}
	}
	if !other {
		return nil, cNext
	}
	t.BlockWhy = "yield"
	t.BlockKind = "yield"
	return nil, cBlock
}

// ---------- parallel sections (lockset race analysis) ----------

type Race struct {
	Obj    string
	Path   string
	A, B   string // descriptions "fn@pos [locks] W/R"
	Notes  []string
	Key    string
}

func parBegin(ex *Executor, st *State, cc *CallCtx, args []Val) (Val, ctl) {
	// everything reachable now is the common pre-state: mark all existing objects shared
	for o := range st.Heap {
		o.Shared = true
	}
	snap := make(map[*Obj]Val, len(st.Heap))
	for k, v := range st.Heap {
		snap[k] = v
	}
	st.Ghost["par.snap"] = snap
	st.Ghost["par.start"] = len(st.Access)
	st.LogOn = true
	st.th().Region = 1
	return nil, cNext
}

func parMid(ex *Executor, st *State, cc *CallCtx, args []Val) (Val, ctl) {
	if v, c := ex.yield(st, cc); c != cNext {
		return v, c
	}
	snap := st.Ghost["par.snap"].(map[*Obj]Val)
	post := st.Heap
	st.Ghost["par.post1"] = post
	nh := make(map[*Obj]Val, len(post))
	// objects allocated by region 1 stay (unreachable from region 2 anyway); pre-state objects are restored
	for k, v := range post {
		nh[k] = v
	}
	for k, v := range snap {
		nh[k] = v
	}
	st.Heap = nh
	st.th().Region = 2
	// locks held by thread bookkeeping is per thread and must be empty here
	return nil, cNext
}

func parEnd(ex *Executor, st *State, cc *CallCtx, args []Val) (Val, ctl) {
	if v, c := ex.yield(st, cc); c != cNext {
		return v, c
	}
	st.LogOn = false
	st.th().Region = 0
	start := st.Ghost["par.start"].(int)
	acc := st.Access[start:]
	var r1, r2 []Access
	for _, a := range acc {
		if a.Region == 1 {
			r1 = append(r1, a)
		} else if a.Region == 2 {
			r2 = append(r2, a)
		}
	}
	ex.Stats.Obligations++
	found := false
	seen := map[string]bool{}
	for _, a := range r1 {
		for _, b := range r2 {
			if a.Obj != b.Obj || !(a.Write || b.Write) {
				continue
			}
			if !pathsOverlap(a.Path, b.Path) {
				continue
			}
			if protected(a.LockM, b.LockM) {
				continue
			}
			key := fmt.Sprintf("%s|%s|%s", a.Obj.Name+a.Path, ex.posStr(a), ex.posStr(b))
			if seen[key] {
				continue
			}
			seen[key] = true
			found = true
			da := fmt.Sprintf("%s %s@%s locks[%s]", rw(a.Write), a.Fn, ex.posStr(a), a.Locks)
			db := fmt.Sprintf("%s %s@%s locks[%s]", rw(b.Write), b.Fn, ex.posStr(b), b.Locks)
			ex.Races = append(ex.Races, Race{Obj: a.Obj.Name, Path: a.Path, A: da, B: db, Notes: append([]string(nil), st.Notes...), Key: key})
			ex.violate(st, fmt.Sprintf("race:%s|%s", ex.posStr(a), ex.posStr(b)), fmt.Sprintf("data race on %s%s: %s  ||  %s", a.Obj.Name, a.Path, da, db), nil)
		}
	}
	if !found {
		ex.Stats.Discharged++
	}
	st.Ghost["par.accesses"] = len(acc)
	ex.Stats.AssertIDs["race-free"]++
	return nil, cNext
}

func rw(w bool) string {
	if w {
		return "WRITE"
	}
	return "READ"
}

func (ex *Executor) posStr(a Access) string {
	if !a.Pos.IsValid() {
		return "?"
	}
	p := ex.Prog.Fset.Position(a.Pos)
	fn := p.Filename
	if i := strings.LastIndex(fn, "/"); i >= 0 {
		fn = fn[i+1:]
	}
	return fmt.Sprintf("%s:%d", fn, p.Line)
}

func pathsOverlap(a, b string) bool {
	return a == b || strings.HasPrefix(a, b+"/") || strings.HasPrefix(b, a+"/") || a == "" || b == ""
}

// protected: some common lock is held by both with at least one side exclusive.
func protected(a, b map[string]byte) bool {
	for k, ma := range a {
		if mb, ok := b[k]; ok {
			if ma == 'W' || mb == 'W' {
				return true
			}
		}
	}
	return false
}
