package symex

// Contracts for the cryptographic / kms-wrapping leaves used by filters/encrypt (DESIGN §3.6): every primitive is an
// uninterpreted, deterministic function of its inputs, so "which key, salt and info went in" and "same inputs ⇒
// same output" are visible to the solver; that AES-GCM decrypts and that HKDF/HMAC-SHA256 are the standard functions
// is trusted.

import (
	"fmt"
	"go/types"

	"verif/engine/smt"
)

type AeadV struct { // *aead.Wrapper
	Key    *smt.Term // String; "" = unset
	KeySet bool
	KeyID  *smt.Term
}

type HkdfV struct{ T *smt.Term } // hkdf reader: T = hkdf(key, salt, info)
type MacV struct {
	Key  *smt.Term
	Data *smt.Term
}

const kmsPkg = "github.com/hashicorp/go-kms-wrapping/v2"

func (ex *Executor) bytesTerm(st *State, v Val) (*smt.Term, *smt.Term) {
	switch b := v.(type) {
	case BytesV:
		return ex.bytesContent(st, b), b.Nil
	case SliceV:
		if b.Arr == nil {
			return smt.StrC(""), smt.True
		}
		if t, ok := st.Ghost[fmt.Sprintf("derived:%d", b.Arr.ID)].(*smt.Term); ok {
			return t, smt.False
		}
		// concrete / symbolic-int elements: fold into one term
		acc := smt.StrC("")
		allConst := true
		for _, e := range ex.sliceElems(st, b) {
			t := e.(*smt.Term)
			if n, ok := t.Int64(); ok {
				acc = smt.Concat(acc, smt.StrC(string([]byte{byte(n)})))
			} else {
				allConst = false
				acc = smt.App("bcons", smt.String, acc, t)
			}
		}
		_ = allConst
		return acc, smt.False
	}
	ex.abort("bytesTerm of %T", v)
	return nil, nil
}

func registerCrypto(ex *Executor) {
	I := ex.Intr
	aeadT := func() types.Type { return ex.lookupType(kmsPkg+"/aead", "Wrapper") }
	getW := func(st *State, v Val) (*AeadV, Ptr) {
		p := v.(Ptr)
		if p.Obj == nil {
			ex.goPanic(st, "nil *aead.Wrapper")
		}
		w, ok := ex.load(st, p).(*AeadV)
		if !ok {
			ex.abort("expected *aead.Wrapper model, got %T", ex.load(st, p))
		}
		return w, p
	}
	I[kmsPkg+"/aead.NewWrapper"] = func(ex *Executor, st *State, cc *CallCtx, args []Val) (Val, ctl) {
		return ex.alloc(st, aeadT(), "aead.Wrapper", &AeadV{Key: smt.StrC(""), KeyID: smt.StrC("")}), cNext
	}
	I[kmsPkg+".WithKeyId"] = func(ex *Executor, st *State, cc *CallCtx, args []Val) (Val, ctl) {
		return FuncV{Intr: "kms.optKeyId", Env: []Val{args[0]}}, cNext
	}
	I["(*"+kmsPkg+"/aead.Wrapper).SetConfig"] = func(ex *Executor, st *State, cc *CallCtx, args []Val) (Val, ctl) {
		w, p := getW(st, args[0])
		nw := *w
		if s, ok := args[2].(SliceV); ok {
			for _, o := range ex.sliceElems(st, s) {
				if f, ok := o.(FuncV); ok && f.Intr == "kms.optKeyId" {
					nw.KeyID = f.Env[0].(*smt.Term)
				}
			}
		}
		ex.store(st, p, &nw)
		return TupleV{Ptr{}, IfaceV{}}, cNext
	}
	I["(*"+kmsPkg+"/aead.Wrapper).SetAesGcmKeyBytes"] = func(ex *Executor, st *State, cc *CallCtx, args []Val) (Val, ctl) {
		w, p := getW(st, args[0])
		nw := *w
		k, _ := ex.bytesTerm(st, args[1])
		nw.Key, nw.KeySet = k, true
		ex.store(st, p, &nw)
		return IfaceV{}, cNext
	}
	I["(*"+kmsPkg+"/aead.Wrapper).KeyBytes"] = func(ex *Executor, st *State, cc *CallCtx, args []Val) (Val, ctl) {
		w, _ := getW(st, args[0])
		if !w.KeySet {
			return TupleV{SliceV{}, IfaceV{}}, cNext
		}
		return TupleV{BytesV{S: w.Key, Nil: smt.False}, IfaceV{}}, cNext
	}
	I["(*"+kmsPkg+"/aead.Wrapper).KeyId"] = func(ex *Executor, st *State, cc *CallCtx, args []Val) (Val, ctl) {
		w, _ := getW(st, args[0])
		return TupleV{w.KeyID, IfaceV{}}, cNext
	}
	// Encrypt: fails (environment choice) or returns a BlobInfo whose ciphertext is enc(key, plaintext)
	I["(*"+kmsPkg+"/aead.Wrapper).Encrypt"] = func(ex *Executor, st *State, cc *CallCtx, args []Val) (Val, ctl) {
		w, _ := getW(st, args[0])
		data0, _ := ex.bytesTerm(st, args[2])
		// failure is a deterministic (uninterpreted) function of key and plaintext
		if ex.branch(st, smt.App("aead_encrypt_fails", smt.Bool, w.Key, data0)) {
			st.ND = append(st.ND[:len(st.ND):len(st.ND)], NDRec{Kind: "ext-fail-on", Tag: "Wrapper.Encrypt fails", T: data0})
			st.note("Encrypt fails")
			return TupleV{Ptr{}, ex.mkErr(st, "encrypt-failure")}, cNext
		}
		data, _ := ex.bytesTerm(st, args[2])
		bt := ex.lookupType(kmsPkg, "BlobInfo")
		zv := ex.zero(bt).(*StructV)
		su := bt.Underlying().(*types.Struct)
		for i := 0; i < su.NumFields(); i++ {
			if su.Field(i).Name() == "Ciphertext" {
				zv.Fields[i] = BytesV{S: smt.App("aead_encrypt", smt.String, w.Key, data), Nil: smt.False}
			}
		}
		return TupleV{ex.alloc(st, bt, "BlobInfo", zv), IfaceV{}}, cNext
	}
	I["google.golang.org/protobuf/proto.Marshal"] = func(ex *Executor, st *State, cc *CallCtx, args []Val) (Val, ctl) {
		var parts []*smt.Term
		ex.flatten(st, args[0], 0, &parts)
		acc := smt.StrC("pb")
		for _, t := range parts {
			if !t.IsConst() {
				acc = smt.App("enc2", smt.String, acc, t)
			}
		}
		return TupleV{BytesV{S: smt.App("pbmarshal", smt.String, acc), Nil: smt.False}, IfaceV{}}, cNext
	}
	I["golang.org/x/crypto/hkdf.New"] = func(ex *Executor, st *State, cc *CallCtx, args []Val) (Val, ctl) {
		k, _ := ex.bytesTerm(st, args[1])
		s, _ := ex.bytesTerm(st, args[2])
		i, _ := ex.bytesTerm(st, args[3])
		t := smt.App("hkdf", smt.String, k, s, i)
		ht := ex.lookupType("golang.org/x/crypto/hkdf", "hkdf")
		if ht == nil {
			ex.abort("hkdf type not found")
		}
		p := ex.alloc(st, ht, "hkdf.reader", &HkdfV{T: t})
		return IfaceV{T: types.NewPointer(ht), V: p}, cNext
	}
	hk := func(st *State, r Val) *HkdfV {
		for depth := 0; depth < 3; depth++ {
			iv, ok := r.(IfaceV)
			var p Ptr
			if ok {
				if iv.T == nil {
					return nil
				}
				p, ok = iv.V.(Ptr)
			} else {
				p, ok = r.(Ptr)
			}
			if !ok || p.Obj == nil {
				return nil
			}
			switch v := ex.load(st, p).(type) {
			case *HkdfV:
				return v
			case *StructV: // io.LimitedReader
				r = v.Fields[0]
			default:
				return nil
			}
		}
		return nil
	}
	I["io.ReadFull"] = func(ex *Executor, st *State, cc *CallCtx, args []Val) (Val, ctl) {
		h := hk(st, args[0])
		if h == nil {
			ex.abort("io.ReadFull from an unmodelled reader")
		}
		buf := args[1].(SliceV)
		if buf.Arr != nil {
			st.Ghost[fmt.Sprintf("derived:%d", buf.Arr.ID)] = smt.App("take", smt.String, h.T, smt.IntC(int64(buf.Len)))
		}
		return TupleV{smt.IntC(int64(buf.Len)), IfaceV{}}, cNext
	}
	I["crypto/ed25519.GenerateKey"] = func(ex *Executor, st *State, cc *CallCtx, args []Val) (Val, ctl) {
		h := hk(st, args[0])
		if h == nil {
			ex.abort("ed25519.GenerateKey from an unmodelled reader")
		}
		priv := BytesV{S: smt.App("ed25519_priv", smt.String, h.T), Nil: smt.False}
		pub := BytesV{S: smt.App("ed25519_pub", smt.String, h.T), Nil: smt.False}
		return TupleV{pub, priv, IfaceV{}}, cNext
	}
	I["crypto/hmac.New"] = func(ex *Executor, st *State, cc *CallCtx, args []Val) (Val, ctl) {
		k, _ := ex.bytesTerm(st, args[1])
		mt := ex.lookupType("crypto/hmac", "hmac")
		p := ex.alloc(st, mt, "hmac", &MacV{Key: k, Data: smt.StrC("")})
		return IfaceV{T: types.NewPointer(mt), V: p}, cNext
	}
	I["(*crypto/hmac.hmac).Write"] = func(ex *Executor, st *State, cc *CallCtx, args []Val) (Val, ctl) {
		p := args[0].(Ptr)
		m := ex.load(st, p).(*MacV)
		d, _ := ex.bytesTerm(st, args[1])
		ex.store(st, p, &MacV{Key: m.Key, Data: smt.Concat(m.Data, d)})
		return TupleV{ex.strLen(st, d), IfaceV{}}, cNext
	}
	I["(*crypto/hmac.hmac).Sum"] = func(ex *Executor, st *State, cc *CallCtx, args []Val) (Val, ctl) {
		m := ex.load(st, args[0].(Ptr)).(*MacV)
		return BytesV{S: smt.App("hmac_sha256", smt.String, m.Key, m.Data), Nil: smt.False}, cNext
	}
}

func init() {
	extraIntrinsics = append(extraIntrinsics, func(ex *Executor) {
		// harness helpers for filters/encrypt
		ex.Intr["@verifKey"] = func(ex *Executor, st *State, cc *CallCtx, args []Val) (Val, ctl) {
			return BytesV{S: args[0].(*smt.Term), Nil: smt.False}, cNext
		}
		ex.Intr["@verifCipherEq"] = func(ex *Executor, st *State, cc *CallCtx, args []Val) (Val, ctl) {
			return smt.Eq(args[1].(*smt.Term), args[2].(*smt.Term)), cNext
		}
	})
}
