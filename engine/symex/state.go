package symex

import (
	"fmt"
	"go/token"
	"go/types"
	"sort"
	"strings"

	"verif/engine/smt"

	"golang.org/x/tools/go/ssa"
)

type deferred struct {
	Fn   FuncV
	Args []Val
}

type Frame struct {
	Fn     *ssa.Function
	Block  *ssa.BasicBlock
	Prev   *ssa.BasicBlock
	IP     int
	Regs   map[ssa.Value]Val
	Defers []deferred
	// Dest is the register in the caller frame that receives the result (nil: discard)
	Dest   ssa.Value
	Visits map[int]int
	// running deferred calls: result of callee is discarded and RunDefers is re-entered
	InDefers bool
	// OnReturn, if set, is invoked with the result when this frame returns (used by engine-level callbacks)
	OnReturn func(st *State, res Val)
}

type ThreadStatus int

const (
	Runnable ThreadStatus = iota
	Blocked
	Done
)

type waitArm struct {
	Ch   *Obj
	Send bool
	Val  Val
	Idx  int
}

type Thread struct {
	ID     int
	Frames []*Frame
	Status ThreadStatus
	// lock key -> mode ('R' or 'W')
	Locks map[string]byte
	// blocked on channel arms (for select/send/recv)
	Wait []waitArm
	// Resume info set by a partner thread completing a rendezvous
	Resumed   bool
	ResumeIdx int
	ResumeVal Val
	ResumeOk  bool
	// BlockWhy describes why the thread is blocked (diagnostics)
	BlockWhy  string
	BlockKind string
	BlockPtr  Ptr
	BlockMode byte
	YieldDone bool
	SkipSwitch bool
	Region    int // access-log region (verifPar branch), 0 = main
	Parent   int
}

type NDRec struct {
	Kind string // int, bool, string
	Tag  string
	T    *smt.Term
}

type Access struct {
	Region int
	Tid    int
	Obj    *Obj
	Path   string
	Write  bool
	Locks  string // rendered lockset "key:mode,..."
	LockM  map[string]byte
	Pos    token.Pos
	Fn     string
}

type State struct {
	Threads []*Thread
	Cur     int
	Heap    map[*Obj]Val
	PC      []*smt.Term
	pcSet   map[int]bool
	ND      []NDRec
	Notes   []string
	Reached []string
	Access  []Access
	NFresh  int
	dirty   bool
	Steps   int
	// per-state counters usable by intrinsics
	Ghost map[string]Val
	// LogOn enables access logging
	LogOn bool
	// Tainted: a feasibility check came back unknown on this path
	Tainted bool
	ForkDepth int
	// Interleave: fork on context switches at lock operations (lock-granular schedule exploration)
	Interleave bool
	// GoOrder: at a go statement the new goroutine may run first (until it blocks) — a solver-visible choice; GoForks counts them
	GoOrder bool
	// MapOrder: a range over a built-in map of >= 2 entries visits them in listing or in reverse order — a solver-visible choice
	MapOrder bool
	GoForks int
	Switches   int
	// ParStack: saved heaps for verifPar
	nextTid int
}

func (st *State) th() *Thread { return st.Threads[st.Cur] }
func (st *State) fr() *Frame {
	t := st.th()
	return t.Frames[len(t.Frames)-1]
}

func (st *State) addPC(c *smt.Term) {
	if c.IsTrue() || st.pcSet[c.ID] {
		return
	}
	// split conjunctions so that syntactic lookups work
	if c.Op == smt.OpAnd {
		for _, a := range c.Args {
			st.addPC(a)
		}
		return
	}
	st.PC = append(st.PC[:len(st.PC):len(st.PC)], c)
	st.pcSet[c.ID] = true
}

func (st *State) pcHas(c *smt.Term) bool { return st.pcSet[c.ID] }

func (st *State) clone() *State {
	n := &State{
		Cur: st.Cur, PC: st.PC[:len(st.PC):len(st.PC)], ND: st.ND[:len(st.ND):len(st.ND)],
		Notes: st.Notes[:len(st.Notes):len(st.Notes)], Reached: st.Reached[:len(st.Reached):len(st.Reached)], Access: st.Access[:len(st.Access):len(st.Access)],
		NFresh: st.NFresh, Steps: st.Steps, LogOn: st.LogOn, Tainted: st.Tainted, nextTid: st.nextTid, ForkDepth: st.ForkDepth, Interleave: st.Interleave, Switches: st.Switches,
	}
	n.Heap = make(map[*Obj]Val, len(st.Heap))
	for k, v := range st.Heap {
		n.Heap[k] = v
	}
	n.pcSet = make(map[int]bool, len(st.pcSet))
	for k := range st.pcSet {
		n.pcSet[k] = true
	}
	n.Ghost = make(map[string]Val, len(st.Ghost))
	for k, v := range st.Ghost {
		n.Ghost[k] = v
	}
	n.Threads = make([]*Thread, len(st.Threads))
	for i, t := range st.Threads {
		nt := *t
		nt.Locks = make(map[string]byte, len(t.Locks))
		for k, v := range t.Locks {
			nt.Locks[k] = v
		}
		nt.Wait = append([]waitArm(nil), t.Wait...)
		nt.Frames = make([]*Frame, len(t.Frames))
		for j, f := range t.Frames {
			nf := *f
			nf.Regs = make(map[ssa.Value]Val, len(f.Regs))
			for k, v := range f.Regs {
				nf.Regs[k] = v
			}
			nf.Defers = append([]deferred(nil), f.Defers...)
			nf.Visits = make(map[int]int, len(f.Visits))
			for k, v := range f.Visits {
				nf.Visits[k] = v
			}
			nt.Frames[j] = &nf
		}
		n.Threads[i] = &nt
	}
	return n
}

func (st *State) note(format string, a ...interface{}) {
	st.Notes = append(st.Notes[:len(st.Notes):len(st.Notes)], fmt.Sprintf(format, a...))
}

func (st *State) fresh(prefix string, s smt.Sort) *smt.Term {
	st.NFresh++
	return smt.Var(fmt.Sprintf("%s!%d", prefix, st.NFresh), s)
}

func lockKey(p Ptr) string { return fmt.Sprintf("o%d%s", p.Obj.ID, p.Path) }

func renderLocks(m map[string]byte) string {
	var ks []string
	for k, v := range m {
		ks = append(ks, k+":"+string(v))
	}
	sort.Strings(ks)
	return strings.Join(ks, ",")
}

func (st *State) stackString() string {
	var sb strings.Builder
	t := st.th()
	for i := len(t.Frames) - 1; i >= 0; i-- {
		f := t.Frames[i]
		sb.WriteString(f.Fn.String())
		if i > 0 {
			sb.WriteString(" < ")
		}
	}
	return sb.String()
}

func typeString(t types.Type) string {
	return types.TypeString(t, func(p *types.Package) string { return p.Name() })
}
