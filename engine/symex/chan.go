package symex

import (
	"fmt"
	"go/types"
	"math/big"

	"verif/engine/smt"

	"golang.org/x/tools/go/ssa"
)

type bigIntT = big.Int

func wrapInt(v *big.Int, k types.BasicKind) *big.Int {
	var bits uint
	signed := true
	switch k {
	case types.Int, types.Int64:
		bits = 64
	case types.Int32:
		bits = 32
	case types.Int16:
		bits = 16
	case types.Int8:
		bits = 8
	case types.Uint, types.Uint64, types.Uintptr:
		bits, signed = 64, false
	case types.Uint32:
		bits, signed = 32, false
	case types.Uint16:
		bits, signed = 16, false
	case types.Uint8:
		bits, signed = 8, false
	default:
		return v
	}
	mod := new(big.Int).Lsh(big.NewInt(1), bits)
	r := new(big.Int).Mod(v, mod)
	if signed {
		half := new(big.Int).Lsh(big.NewInt(1), bits-1)
		if r.Cmp(half) >= 0 {
			r.Sub(r, mod)
		}
	}
	return r
}

// ---------- channels (deterministic cooperative scheduling; all-schedule reasoning is done by the EO composer) ----------

func (ex *Executor) chanData(st *State, c ChanV) *ChanData {
	return st.Heap[c.Obj].(*ChanData)
}

func (ex *Executor) setChan(st *State, c ChanV, d *ChanData) {
	st.dirty = true
	st.Heap[c.Obj] = d
}

// findWaiter finds another blocked thread waiting with an arm on ch in the given direction.
func (ex *Executor) findWaiter(st *State, ch *Obj, send bool) (*Thread, int) {
	for _, t := range st.Threads {
		if t == st.th() || t.Status != Blocked {
			continue
		}
		for i, w := range t.Wait {
			if w.Ch == ch && w.Send == send {
				return t, i
			}
		}
	}
	return nil, -1
}

func (ex *Executor) wake(t *Thread, arm waitArm, v Val, ok bool) {
	t.Resumed = true
	t.ResumeIdx = arm.Idx
	t.ResumeVal = v
	t.ResumeOk = ok
	t.Wait = nil
	t.Status = Runnable
}

// trySend attempts a send without blocking. Returns true if done.
func (ex *Executor) trySend(st *State, c ChanV, v Val) bool {
	if c.Obj == nil {
		return false
	}
	d := ex.chanData(st, c)
	if d.Closed {
		ex.goPanic(st, "send on closed channel")
	}
	if t, i := ex.findWaiter(st, c.Obj, false); t != nil {
		ex.wake(t, t.Wait[i], v, true)
		return true
	}
	if len(d.Buf) < d.Cap {
		nb := append(append([]Val(nil), d.Buf...), v)
		ex.setChan(st, c, &ChanData{Cap: d.Cap, Buf: nb, Closed: d.Closed})
		return true
	}
	return false
}

// tryRecv attempts a receive without blocking.
func (ex *Executor) tryRecv(st *State, c ChanV) (Val, bool, bool) {
	if c.Obj == nil {
		return nil, false, false
	}
	d := ex.chanData(st, c)
	if len(d.Buf) > 0 {
		v := d.Buf[0]
		nb := append([]Val(nil), d.Buf[1:]...)
		// a blocked sender may now move its value into the buffer
		if t, i := ex.findWaiter(st, c.Obj, true); t != nil {
			nb = append(nb, t.Wait[i].Val)
			ex.wake(t, t.Wait[i], nil, true)
		}
		ex.setChan(st, c, &ChanData{Cap: d.Cap, Buf: nb, Closed: d.Closed})
		return v, true, true
	}
	if t, i := ex.findWaiter(st, c.Obj, true); t != nil {
		v := t.Wait[i].Val
		ex.wake(t, t.Wait[i], nil, true)
		return v, true, true
	}
	if d.Closed {
		return nil, false, true
	}
	return nil, false, false
}

func (ex *Executor) chanClose(st *State, c ChanV) {
	if c.Obj == nil {
		ex.goPanic(st, "close of nil channel")
	}
	d := ex.chanData(st, c)
	if d.Closed {
		ex.goPanic(st, "close of closed channel")
	}
	ex.setChan(st, c, &ChanData{Cap: d.Cap, Buf: d.Buf, Closed: true})
	// wake all receivers
	for _, t := range st.Threads {
		if t.Status != Blocked {
			continue
		}
		for _, w := range t.Wait {
			if w.Ch == c.Obj && !w.Send {
				ex.wake(t, w, nil, false)
				break
			}
			if w.Ch == c.Obj && w.Send {
				ex.goPanic(st, "send on closed channel (parked sender)")
			}
		}
	}
}

func (ex *Executor) chanSend(st *State, f *Frame, in *ssa.Send) ctl {
	t := st.th()
	if t.Resumed {
		t.Resumed = false
		f.IP++
		return cNext
	}
	c := ex.get(st, f, in.Chan).(ChanV)
	v := ex.get(st, f, in.X)
	if st.LogOn {
		ex.markShared(st, v)
	}
	if ex.trySend(st, c, v) {
		f.IP++
		return cNext
	}
	t.Wait = []waitArm{{Ch: c.Obj, Send: true, Val: v, Idx: 0}}
	t.BlockWhy = fmt.Sprintf("chan send in %s", f.Fn)
	return cBlock
}

func (ex *Executor) chanRecv(st *State, f *Frame, in *ssa.UnOp, c ChanV) ctl {
	t := st.th()
	et := in.X.Type().Underlying().(*types.Chan).Elem()
	fin := func(v Val, ok bool) ctl {
		if !ok || v == nil {
			if !ok {
				v = ex.zero(et)
			}
		}
		if in.CommaOk {
			ex.setReg(f, in, TupleV{v, smt.BoolC(ok)})
		} else {
			ex.setReg(f, in, v)
		}
		f.IP++
		return cNext
	}
	if t.Resumed {
		t.Resumed = false
		return fin(t.ResumeVal, t.ResumeOk)
	}
	if v, ok, done := ex.tryRecv(st, c); done {
		return fin(v, ok)
	}
	t.Wait = []waitArm{{Ch: c.Obj, Send: false, Idx: 0}}
	t.BlockWhy = fmt.Sprintf("chan recv in %s", f.Fn)
	return cBlock
}

func (ex *Executor) selectOp(st *State, f *Frame, in *ssa.Select) ctl {
	t := st.th()
	// result tuple: (index int, recvOk bool, r_0 T_0, ... r_n-1 T_n-1) for recv states
	mk := func(idx int, recvVal Val, recvOk bool) ctl {
		tv := TupleV{smt.IntC(int64(idx)), smt.BoolC(recvOk)}
		for i, s := range in.States {
			if s.Dir == types.RecvOnly {
				et := s.Chan.Type().Underlying().(*types.Chan).Elem()
				if i == idx && recvOk && recvVal != nil {
					tv = append(tv, recvVal)
				} else {
					tv = append(tv, ex.zero(et))
				}
			}
		}
		ex.setReg(f, in, tv)
		f.IP++
		return cNext
	}
	if t.Resumed {
		t.Resumed = false
		return mk(t.ResumeIdx, t.ResumeVal, t.ResumeOk)
	}
	// which arms are ready now? (Go picks uniformly among the ready ones: the choice is a solver-visible fork)
	var arms []waitArm
	var ready []int
	for i, s := range in.States {
		c := ex.get(st, f, s.Chan).(ChanV)
		if c.Obj == nil {
			continue
		}
		if s.Dir == types.SendOnly {
			arms = append(arms, waitArm{Ch: c.Obj, Send: true, Val: ex.get(st, f, s.Send), Idx: i})
			if ex.canSend(st, c) {
				ready = append(ready, i)
			}
		} else {
			arms = append(arms, waitArm{Ch: c.Obj, Send: false, Idx: i})
			if ex.canRecv(st, c) {
				ready = append(ready, i)
			}
		}
	}
	if len(ready) > 0 {
		pick := ready[len(ready)-1]
		// all choice variables are named from the log length at the start of the instruction and recorded only after
		// the last branch (a forked sibling re-executes this instruction from the start)
		base := len(st.ND)
		var asked []*smt.Term
		for k, i := range ready[:len(ready)-1] {
			ch := smt.Var(fmt.Sprintf("nd%d_%s", base+k, "selarm"), smt.Bool)
			take := ex.branch(st, ch)
			asked = append(asked, ch)
			if take {
				pick = i
				break
			}
		}
		for _, ch := range asked {
			st.ND = append(st.ND[:len(st.ND):len(st.ND)], NDRec{Kind: "ext-bool", Tag: "select arm choice", T: ch})
		}
		s := in.States[pick]
		c := ex.get(st, f, s.Chan).(ChanV)
		if s.Dir == types.SendOnly {
			if !ex.trySend(st, c, ex.get(st, f, s.Send)) {
				ex.abort("internal: ready send arm not taken")
			}
			return mk(pick, nil, false)
		}
		v, ok, done := ex.tryRecv(st, c)
		if !done {
			ex.abort("internal: ready recv arm not taken")
		}
		return mk(pick, v, ok)
	}
	if !in.Blocking {
		return mk(-1, nil, false)
	}
	t.Wait = arms
	t.BlockWhy = fmt.Sprintf("select in %s", f.Fn)
	return cBlock
}

// canResume: a blocked thread can be retried if it was woken, or if its blocking condition may have changed.
func (ex *Executor) canResume(st *State, t *Thread) bool {
	if t.Resumed {
		return true
	}
	if len(t.Wait) > 0 {
		// waiting on channels: only partner actions wake us (they set Resumed); closed channels handled at close
		for _, w := range t.Wait {
			if w.Send {
				continue
			}
			d := st.Heap[w.Ch].(*ChanData)
			if d.Closed || len(d.Buf) > 0 {
				t.Wait = nil
				return true
			}
		}
		return false
	}
	// blocked on a lock / waitgroup: retry if the condition changed
	if t.BlockWhy != "" {
		return ex.blockCondChanged(st, t)
	}
	return false
}

func (ex *Executor) canSend(st *State, c ChanV) bool {
	d := ex.chanData(st, c)
	if d.Closed {
		return true // will panic, which is reported
	}
	if t, _ := ex.findWaiter(st, c.Obj, false); t != nil {
		return true
	}
	return len(d.Buf) < d.Cap
}

func (ex *Executor) canRecv(st *State, c ChanV) bool {
	d := ex.chanData(st, c)
	if len(d.Buf) > 0 || d.Closed {
		return true
	}
	t, _ := ex.findWaiter(st, c.Obj, true)
	return t != nil
}
