package symex

import (
	"fmt"
	"go/types"
	"strings"

	"verif/engine/smt"
)

// Opaque models of a few standard-library / third-party objects (contracts listed in DESIGN §3.6).

type BufV struct { // bytes.Buffer: content as one String term; Ver counts modifications
	S   *smt.Term
	Ver int
}
type EncV struct {                                     // json.Encoder
	W      Val // io.Writer interface value
	Indent bool
}
type ReaderV struct { // bytes.Reader
	S   *smt.Term // whole content
	Nil *smt.Term
	Off *smt.Term // bytes consumed (Int)
	Src Ptr       // aliasing bytes.Buffer, if any
	Ver int
}

// flatten renders a Go value as a list of terms (structure tags + leaves) for uninterpreted encodings.
func (ex *Executor) flatten(st *State, v Val, depth int, out *[]*smt.Term) {
	if depth > 6 {
		*out = append(*out, smt.StrC("<deep>"))
		return
	}
	switch x := v.(type) {
	case nil:
		*out = append(*out, smt.StrC("<nil>"))
	case *smt.Term:
		switch x.Sort {
		case smt.String:
			*out = append(*out, x)
		case smt.Int:
			if x.IsConst() {
				*out = append(*out, smt.StrC("#"+x.I.String()))
			} else {
				*out = append(*out, smt.App("itoa", smt.String, x))
			}
		case smt.Bool:
			*out = append(*out, smt.Ite(x, smt.StrC("true"), smt.StrC("false")))
		}
	case Ptr:
		// JSON follows pointers: the pointee's image (nil => null)
		if x.Obj == nil {
			*out = append(*out, smt.StrC("null"))
			return
		}
		root, ok := st.Heap[x.Obj]
		if !ok {
			*out = append(*out, smt.StrC("&"+x.String()))
			return
		}
		ex.flatten(st, getPath(root, parsePath(x.Path)), depth+1, out)
	case IfaceV:
		if x.T == nil {
			*out = append(*out, smt.StrC("<nil-iface>"))
			return
		}
		*out = append(*out, smt.StrC("("+strings.TrimLeft(typeString(x.T), "*")+")"))
		ex.flatten(st, x.V, depth+1, out)
	case *StructV:
		*out = append(*out, smt.StrC("{"))
		for _, f := range x.Fields {
			ex.flatten(st, f, depth+1, out)
		}
		*out = append(*out, smt.StrC("}"))
	case *ArrayV:
		*out = append(*out, smt.StrC("["))
		for _, f := range x.Elems {
			ex.flatten(st, f, depth+1, out)
		}
		*out = append(*out, smt.StrC("]"))
	case SliceV:
		*out = append(*out, smt.StrC("["))
		for _, f := range ex.sliceElems(st, x) {
			ex.flatten(st, f, depth+1, out)
		}
		*out = append(*out, smt.StrC("]"))
	case BytesV:
		*out = append(*out, smt.App("b64std", smt.String, ex.bytesContent(st, x)))
	case MapV:
		*out = append(*out, smt.StrC("map@"+x.Obj.String()))
	default:
		*out = append(*out, smt.StrC(fmt.Sprintf("<%T>", v)))
	}
}

func (ex *Executor) bufAt(st *State, p Ptr) *BufV {
	v := ex.load(st, p)
	b, ok := v.(*BufV)
	if !ok {
		ex.abort("expected bytes.Buffer, got %T", v)
	}
	return b
}

func registerExtlib(ex *Executor) {
	I := ex.Intr
	registerPool(ex)
	registerFS(ex)
	registerCrypto(ex)
	registerReflect(ex)
	I["(*bytes.Buffer).Bytes"] = func(ex *Executor, st *State, cc *CallCtx, args []Val) (Val, ctl) {
		b := ex.bufAt(st, args[0].(Ptr))
		return BytesV{S: b.S, Nil: smt.False, Src: args[0].(Ptr), Ver: b.Ver}, cNext
	}
	I["(*bytes.Buffer).String"] = func(ex *Executor, st *State, cc *CallCtx, args []Val) (Val, ctl) {
		p := args[0].(Ptr)
		if p.Obj == nil {
			return smt.StrC("<nil>"), cNext
		}
		return ex.bufAt(st, p).S, cNext
	}
	I["(*bytes.Buffer).Len"] = func(ex *Executor, st *State, cc *CallCtx, args []Val) (Val, ctl) {
		return ex.strLen(st, ex.bufAt(st, args[0].(Ptr)).S), cNext
	}
	I["(*bytes.Buffer).Reset"] = func(ex *Executor, st *State, cc *CallCtx, args []Val) (Val, ctl) {
		ex.store(st, args[0].(Ptr), &BufV{S: smt.StrC(""), Ver: ex.bufAt(st, args[0].(Ptr)).Ver + 1})
		return nil, cNext
	}
	bufWrite := func(ex *Executor, st *State, cc *CallCtx, args []Val) (Val, ctl) {
		p := args[0].(Ptr)
		b := ex.bufAt(st, p)
		var add *smt.Term
		switch x := args[1].(type) {
		case BytesV:
			add = ex.bytesContent(st, x)
		case *smt.Term:
			add = x
		case SliceV:
			add = ex.convert(st, x, nil, types.Typ[types.String]).(*smt.Term)
		default:
			ex.abort("Buffer.Write of %T", x)
		}
		ex.store(st, p, &BufV{S: smt.Concat(b.S, add), Ver: b.Ver + 1})
		return TupleV{ex.strLen(st, add), IfaceV{}}, cNext
	}
	I["(*bytes.Buffer).Write"] = bufWrite
	I["(*bytes.Buffer).WriteString"] = bufWrite

	I["encoding/json.NewEncoder"] = func(ex *Executor, st *State, cc *CallCtx, args []Val) (Val, ctl) {
		t := ex.lookupType("encoding/json", "Encoder")
		p := ex.alloc(st, t, "json.Encoder", &EncV{W: args[0]})
		return p, cNext
	}
	I["(*encoding/json.Encoder).SetIndent"] = func(ex *Executor, st *State, cc *CallCtx, args []Val) (Val, ctl) {
		p := args[0].(Ptr)
		e := ex.load(st, p).(*EncV)
		ind := true
		if a, ok := args[1].(*smt.Term); ok && a.IsConst() && a.S == "" {
			if b, ok := args[2].(*smt.Term); ok && b.IsConst() && b.S == "" {
				ind = false
			}
		}
		ex.store(st, p, &EncV{W: e.W, Indent: ind})
		return nil, cNext
	}
	I["(*encoding/json.Encoder).SetEscapeHTML"] = func(ex *Executor, st *State, cc *CallCtx, args []Val) (Val, ctl) {
		return nil, cNext
	}
	// json.Marshal(v): the Encoder's image without the trailing newline (same failure predicate)
	I["encoding/json.Marshal"] = func(ex *Executor, st *State, cc *CallCtx, args []Val) (Val, ctl) {
		var parts []*smt.Term
		ex.flatten(st, args[0], 0, &parts)
		shape := smt.StrC("shape")
		for _, t := range parts {
			if t.IsConst() {
				shape = smt.App("enc2", smt.String, shape, t)
			}
		}
		fail := smt.App("json_fails", smt.Bool, shape)
		if ex.branch(st, fail) {
			st.ND = append(st.ND[:len(st.ND):len(st.ND)], NDRec{Kind: "ext-fail", Tag: "json.Encode fails", T: smt.True})
			es := ex.lookupType("errors", "errorString")
			ep := ex.alloc(st, es, "json-error", &StructV{[]Val{smt.StrC("json: unsupported value")}})
			return TupleV{BytesV{S: smt.StrC(""), Nil: smt.True}, IfaceV{T: types.NewPointer(es), V: ep}}, cNext
		}
		acc := smt.StrC("json")
		for _, t := range parts {
			acc = smt.App("enc2", smt.String, acc, t)
		}
		return TupleV{BytesV{S: smt.App("json", smt.String, acc), Nil: smt.False}, IfaceV{}}, cNext
	}
	I["(time.Time).MarshalJSON"] = func(ex *Executor, st *State, cc *CallCtx, args []Val) (Val, ctl) {
		return TupleV{BytesV{S: smt.App("time_json", smt.String, args[0].(*smt.Term)), Nil: smt.False}, IfaceV{}}, cNext
	}
	// Encode: either fails (environment choice; nothing written) or appends json(v) — an uninterpreted,
	// deterministic function of the flattened value — followed by "\n" to the underlying bytes.Buffer.
	I["(*encoding/json.Encoder).Encode"] = func(ex *Executor, st *State, cc *CallCtx, args []Val) (Val, ctl) {
		p := args[0].(Ptr)
		e := ex.load(st, p).(*EncV)
		var parts []*smt.Term
		ex.flatten(st, args[1], 0, &parts)
		// whether encoding fails is a (deterministic, uninterpreted) function of the value's shape: its types,
		// structure and non-scalar leaves; string/number/bool leaves never make encoding/json fail.
		shape := smt.StrC("shape")
		for _, t := range parts {
			if t.IsConst() {
				shape = smt.App("enc2", smt.String, shape, t)
			}
		}
		fail := smt.App("json_fails", smt.Bool, shape)
		if ex.branch(st, fail) {
			st.ND = append(st.ND[:len(st.ND):len(st.ND)], NDRec{Kind: "ext-fail", Tag: "json.Encode fails", T: smt.True})
			es := ex.lookupType("errors", "errorString")
			ep := ex.alloc(st, es, "json-error", &StructV{[]Val{smt.StrC("json: unsupported value")}})
			st.note("json.Encode fails")
			return IfaceV{T: types.NewPointer(es), V: ep}, cNext
		}
		name := "json"
		if e.Indent {
			name = "jsonIndent"
		}
		// fold the flattened parts into nested binary applications (fixed arity)
		acc := smt.StrC(name)
		for _, t := range parts {
			acc = smt.App("enc2", smt.String, acc, t)
		}
		doc := smt.Concat(smt.App(name, smt.String, acc), smt.StrC("\n"))
		w, ok := e.W.(IfaceV)
		if !ok || w.T == nil {
			ex.abort("json.Encoder over nil writer")
		}
		bp, ok := w.V.(Ptr)
		if !ok {
			ex.abort("json.Encoder over unsupported writer %s", w.T)
		}
		if b, ok := ex.load(st, bp).(*BufV); ok {
			ex.store(st, bp, &BufV{S: smt.Concat(b.S, doc), Ver: b.Ver + 1})
			return IfaceV{}, cNext
		}
		ex.abort("json.Encoder over unsupported writer %s", w.T)
		return nil, cNext
	}

	// ToValidUTF8: the text with every run of invalid bytes replaced — an uninterpreted function of text and replacement
	// (evaluated for literals); the result is a fresh slice
	toValid := func(ex *Executor, st *State, cc *CallCtx, args []Val) (Val, ctl) {
		isBytes := false
		var s, r *smt.Term
		if t, ok := args[0].(*smt.Term); ok {
			s, r = t, args[1].(*smt.Term)
		} else {
			isBytes = true
			s, _ = ex.bytesTerm(st, args[0])
			r, _ = ex.bytesTerm(st, args[1])
		}
		var out *smt.Term
		if s.IsConst() && r.IsConst() {
			out = smt.StrC(strings.ToValidUTF8(s.S, r.S))
		} else {
			out = smt.App("uf_tovalidutf8", smt.String, s, r)
		}
		if isBytes {
			return BytesV{S: out, Nil: smt.False}, cNext
		}
		return out, cNext
	}
	I["bytes.ToValidUTF8"] = toValid
	I["strings.ToValidUTF8"] = toValid
	I["bytes.NewReader"] = func(ex *Executor, st *State, cc *CallCtx, args []Val) (Val, ctl) {
		t := ex.lookupType("bytes", "Reader")
		var r *ReaderV
		switch x := args[0].(type) {
		case BytesV:
			r = &ReaderV{S: x.S, Nil: x.Nil, Off: smt.IntC(0), Src: x.Src, Ver: x.Ver}
		case SliceV:
			r = &ReaderV{S: ex.convert(st, x, nil, types.Typ[types.String]).(*smt.Term), Nil: smt.BoolC(x.Arr == nil), Off: smt.IntC(0)}
		default:
			ex.abort("bytes.NewReader of %T", x)
		}
		return ex.alloc(st, t, "bytes.Reader", r), cNext
	}
	// leaves of the sort.Slice / sort.SliceStable models (models.go): length of, and swap inside, a slice held in an interface
	anySlice := func(ex *Executor, v Val) SliceV {
		if i, ok := v.(IfaceV); ok {
			v = i.V
		}
		s, ok := v.(SliceV)
		if !ok {
			ex.abort("sort.Slice over %T", v)
		}
		return s
	}
	I["@verifSliceLenAny"] = func(ex *Executor, st *State, cc *CallCtx, args []Val) (Val, ctl) {
		return smt.IntC(int64(anySlice(ex, args[0]).Len)), cNext
	}
	I["@verifSliceSwapAny"] = func(ex *Executor, st *State, cc *CallCtx, args []Val) (Val, ctl) {
		sl := anySlice(ex, args[0])
		i, ok1 := args[1].(*smt.Term).Int64()
		j, ok2 := args[2].(*smt.Term).Int64()
		if !ok1 || !ok2 || sl.Arr == nil || int(i) >= sl.Len || int(j) >= sl.Len {
			ex.abort("sort.Slice swap with symbolic or out-of-range indices")
		}
		arr := st.Heap[sl.Arr].(*ArrayV)
		es := append([]Val(nil), arr.Elems...)
		es[sl.Off+int(i)], es[sl.Off+int(j)] = es[sl.Off+int(j)], es[sl.Off+int(i)]
		st.dirty = true
		st.Heap[sl.Arr] = &ArrayV{es}
		return nil, cNext
	}
	// (*bytes.Reader).Reset(b): the reader (possibly a zero-value struct field) now reads b from the start
	I["(*bytes.Reader).Reset"] = func(ex *Executor, st *State, cc *CallCtx, args []Val) (Val, ctl) {
		var r *ReaderV
		switch x := args[1].(type) {
		case BytesV:
			r = &ReaderV{S: x.S, Nil: x.Nil, Off: smt.IntC(0), Src: x.Src, Ver: x.Ver}
		case SliceV:
			r = &ReaderV{S: ex.convert(st, x, nil, types.Typ[types.String]).(*smt.Term), Nil: smt.BoolC(x.Arr == nil), Off: smt.IntC(0)}
		default:
			ex.abort("bytes.Reader.Reset of %T", x)
		}
		ex.store(st, args[0].(Ptr), r)
		return nil, cNext
	}
	// verifReaderRest(r) []byte : the unread part (whole content when nothing was consumed)
	I["@verifReaderRest"] = func(ex *Executor, st *State, cc *CallCtx, args []Val) (Val, ctl) {
		r := ex.readerAt(st, args[0].(Ptr))
		content := ex.bytesContent(st, BytesV{S: r.S, Nil: r.Nil, Src: r.Src, Ver: r.Ver})
		if o, ok := r.Off.Int64(); ok && o == 0 {
			return BytesV{S: content, Nil: smt.False}, cNext
		}
		return BytesV{S: smt.App("suffix", smt.String, content, r.Off), Nil: smt.False}, cNext
	}
	I["@verifReaderLeft"] = func(ex *Executor, st *State, cc *CallCtx, args []Val) (Val, ctl) {
		r := ex.readerAt(st, args[0].(Ptr))
		return smt.Sub(ex.strLen(st, r.S), r.Off), cNext
	}
	I["@verifReaderAdvance"] = func(ex *Executor, st *State, cc *CallCtx, args []Val) (Val, ctl) {
		p := args[0].(Ptr)
		r := ex.readerAt(st, p)
		ex.store(st, p, &ReaderV{S: r.S, Nil: r.Nil, Off: smt.Add(r.Off, args[1].(*smt.Term)), Src: r.Src, Ver: r.Ver})
		return nil, cNext
	}
	I["(*bytes.Reader).Seek"] = func(ex *Executor, st *State, cc *CallCtx, args []Val) (Val, ctl) {
		p := args[0].(Ptr)
		r := ex.load(st, p).(*ReaderV)
		off, ok1 := args[1].(*smt.Term).Int64()
		wh, ok2 := args[2].(*smt.Term).Int64()
		if !ok1 || !ok2 || wh != 0 {
			ex.abort("bytes.Reader.Seek: only Seek(const, io.SeekStart) is modelled")
		}
		ex.store(st, p, &ReaderV{S: r.S, Nil: r.Nil, Off: smt.IntC(off), Src: r.Src, Ver: r.Ver})
		return TupleV{smt.IntC(off), IfaceV{}}, cNext
	}
	I["(*bytes.Reader).Size"] = func(ex *Executor, st *State, cc *CallCtx, args []Val) (Val, ctl) {
		r := ex.load(st, args[0].(Ptr)).(*ReaderV)
		return ex.strLen(st, r.S), cNext
	}
	I["(*bytes.Reader).Len"] = func(ex *Executor, st *State, cc *CallCtx, args []Val) (Val, ctl) {
		r := ex.load(st, args[0].(Ptr)).(*ReaderV)
		return smt.Sub(ex.strLen(st, r.S), r.Off), cNext
	}

	// (*url.URL).String: modelled for path-only URLs as the Path itself (no escaping)
	I["(*net/url.URL).String"] = func(ex *Executor, st *State, cc *CallCtx, args []Val) (Val, ctl) {
		u := ex.load(st, args[0].(Ptr)).(*StructV)
		ut := ex.lookupType("net/url", "URL").Underlying().(*types.Struct)
		var path *smt.Term
		for i := 0; i < ut.NumFields(); i++ {
			f := ut.Field(i)
			t, isT := u.Fields[i].(*smt.Term)
			if f.Name() == "Path" {
				path = t
				continue
			}
			if isT && t.Sort == smt.String && !(t.IsConst() && t.S == "") {
				ex.abort("url.URL.String: only path-only URLs are modelled (field %s set)", f.Name())
			}
		}
		return path, cNext
	}
	I["(*encoding/base64.Encoding).EncodeToString"] = func(ex *Executor, st *State, cc *CallCtx, args []Val) (Val, ctl) {
		var s *smt.Term
		switch x := args[1].(type) {
		case BytesV:
			s = ex.bytesContent(st, x)
		case SliceV:
			s = ex.convert(st, x, nil, types.Typ[types.String]).(*smt.Term)
		default:
			ex.abort("base64 of %T", x)
		}
		return smt.App("b64", smt.String, s), cNext
	}
	// base62.RandomWithReader(n, r): like Random, reading from r — a caller-supplied io.Reader whose state every call
	// mutates (logged as a write to the reader object, so that a reader shared between goroutines without a lock is a race)
	I["github.com/hashicorp/go-secure-stdlib/base62.RandomWithReader"] = func(ex *Executor, st *State, cc *CallCtx, args []Val) (Val, ctl) {
		if iv, ok := args[1].(IfaceV); ok {
			if p, ok := iv.V.(Ptr); ok && p.Obj != nil {
				ex.logAccess(st, Ptr{Obj: p.Obj}, true)
			}
		}
		return ex.Intr["github.com/hashicorp/go-secure-stdlib/base62.Random"](ex, st, cc, args[:1])
	}
	// bufio.NewReaderSize(r, n): an opaque reader object (only its identity matters to the models above)
	I["bufio.NewReaderSize"] = func(ex *Executor, st *State, cc *CallCtx, args []Val) (Val, ctl) {
		t := ex.lookupType("bufio", "Reader")
		return ex.alloc(st, t, "bufio.Reader", ex.zero(t)), cNext
	}
	I["bufio.NewReader"] = I["bufio.NewReaderSize"]
	// base62.Random(n): a fresh non-empty string, or an error
	I["github.com/hashicorp/go-secure-stdlib/base62.Random"] = func(ex *Executor, st *State, cc *CallCtx, args []Val) (Val, ctl) {
		fail := smt.Var(fmt.Sprintf("nd%d_%s", len(st.ND), "randfail"), smt.Bool)
		failed := ex.branch(st, fail)
		st.ND = append(st.ND[:len(st.ND):len(st.ND)], NDRec{Kind: "ext-bool", Tag: "base62.Random fails", T: fail})
		if failed {
			es := ex.lookupType("errors", "errorString")
			ep := ex.alloc(st, es, "rand-error", &StructV{[]Val{smt.StrC("rand failure")}})
			return TupleV{smt.StrC(""), IfaceV{T: types.NewPointer(es), V: ep}}, cNext
		}
		v := smt.Var(fmt.Sprintf("nd%d_%s", len(st.ND), "randstr"), smt.String)
		st.ND = append(st.ND[:len(st.ND):len(st.ND)], NDRec{Kind: "ext-string", Tag: "base62.Random", T: v})
		st.addPC(smt.Ne(v, smt.StrC("")))
		// A-random: strings drawn from the system's random source do not repeat
		prev, _ := st.Ghost["rand.strings"].([]*smt.Term)
		for _, o := range prev {
			st.addPC(smt.Ne(v, o))
		}
		st.Ghost["rand.strings"] = append(append([]*smt.Term(nil), prev...), v)
		return TupleV{v, IfaceV{}}, cNext
	}
}

// bytesContent returns the content of a []byte value. A slice obtained from bytes.Buffer.Bytes() aliases the
// buffer's memory: once the buffer has been modified (Reset / Write / Encode into it) the slice no longer holds
// what it held — its content is then an unconstrained string (whatever the buffer was overwritten with).
func (ex *Executor) bytesContent(st *State, b BytesV) *smt.Term {
	if b.Src.Obj == nil {
		return b.S
	}
	root, ok := st.Heap[b.Src.Obj]
	if !ok {
		return b.S
	}
	cur, ok := getPath(root, parsePath(b.Src.Path)).(*BufV)
	if !ok || cur.Ver == b.Ver {
		return b.S
	}
	st.note("read of a bytes.Buffer.Bytes() slice after the buffer was modified")
	return st.fresh("stale_bytes", smt.String)
}

// readerAt: the bytes.Reader at p; a zero-value Reader (never Reset) reads nothing
func (ex *Executor) readerAt(st *State, p Ptr) *ReaderV {
	if r, ok := ex.load(st, p).(*ReaderV); ok {
		return r
	}
	return &ReaderV{S: smt.StrC(""), Nil: smt.True, Off: smt.IntC(0)}
}

func registerPool(ex *Executor) {
	I := ex.Intr
	// sync.Pool: Get returns a previously Put value (environment choice) or reports none
	I["@verifPoolTake"] = func(ex *Executor, st *State, cc *CallCtx, args []Val) (Val, ctl) {
		key := "pool:" + lockKey(args[0].(Ptr))
		items, _ := st.Ghost[key].([]Val)
		if len(items) == 0 {
			return TupleV{IfaceV{}, smt.False}, cNext
		}
		reuse := smt.Var(fmt.Sprintf("nd%d_%s", len(st.ND), "poolreuse"), smt.Bool)
		take := ex.branch(st, reuse)
		st.ND = append(st.ND[:len(st.ND):len(st.ND)], NDRec{Kind: "ext-bool", Tag: "sync.Pool.Get reuses", T: reuse})
		if !take {
			return TupleV{IfaceV{}, smt.False}, cNext
		}
		x := items[len(items)-1]
		st.Ghost[key] = append([]Val(nil), items[:len(items)-1]...)
		return TupleV{x, smt.True}, cNext
	}
	I["@verifPoolGive"] = func(ex *Executor, st *State, cc *CallCtx, args []Val) (Val, ctl) {
		key := "pool:" + lockKey(args[0].(Ptr))
		items, _ := st.Ghost[key].([]Val)
		st.Ghost[key] = append(append([]Val(nil), items...), args[1])
		return nil, cNext
	}
}
