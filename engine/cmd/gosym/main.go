// gosym: symbolic execution of harness functions over the real go/ssa of the repository.
package main

import (
	"encoding/json"
	"flag"
	"fmt"
	"os"
	"path/filepath"
	"regexp"
	"sort"
	"strings"
	"time"

	"verif/engine/smt"
	"verif/engine/symex"

	"golang.org/x/tools/go/packages"
	"golang.org/x/tools/go/ssa"
	"golang.org/x/tools/go/ssa/ssautil"
)

type multi []string

func (m *multi) String() string     { return strings.Join(*m, ",") }
func (m *multi) Set(s string) error { *m = append(*m, s); return nil }

type ViolOut struct {
	ID    string            `json:"id"`
	Msg   string            `json:"msg"`
	Pos   string            `json:"pos"`
	Stack string            `json:"stack"`
	Notes []string          `json:"notes"`
	Vec   []VecItem         `json:"vector"`
	Model map[string]string `json:"model,omitempty"`
}
type WitnessOut struct {
	Vec     []VecItem `json:"vector"`
	Reached []string  `json:"reached"`
}

type VecItem struct {
	Kind string `json:"kind"`
	Val  string `json:"val"`
	Tag  string `json:"tag,omitempty"`
}

type EntryOut struct {
	Entry        string         `json:"entry"`
	Paths        int            `json:"paths"`
	SymPaths     int            `json:"sym_paths"`
	Forks        int            `json:"forks"`
	Steps        int            `json:"steps"`
	Obligations  int            `json:"obligations"`
	Discharged   int            `json:"discharged"`
	Trivial      int            `json:"trivial_asserts"`
	Unknown      int            `json:"unknown"`
	Aborts       int            `json:"aborts"`
	AbortMsgs    []string       `json:"abort_msgs,omitempty"`
	Violations   []ViolOut      `json:"violations"`
	Reach        map[string]int `json:"reach"`
	AssertIDs    map[string]int `json:"assert_ids"`
	Funcs        []string       `json:"funcs"`
	Intrinsics   map[string]int `json:"intrinsics"`
	Queries      int            `json:"queries"`
	SolverSec    float64        `json:"solver_s"`
	NSat         int            `json:"sat"`
	NUnsat       int            `json:"unsat"`
	NUnknown     int            `json:"solver_unknown"`
	SolverErrors []string       `json:"solver_errors,omitempty"`
	WallSec      float64        `json:"wall_s"`
	EndKinds     map[string]int `json:"end_kinds"`
	Samples      []string       `json:"samples"`
	Races        []symex.Race   `json:"races,omitempty"`
	ViolCounts   map[string]int `json:"violation_counts"`
	Witnesses    []WitnessOut   `json:"witnesses,omitempty"`
}

func main() {
	var harness multi
	var overrides multi
	dir := flag.String("dir", "/repo", "module directory")
	pkgPat := flag.String("pkg", ".", "package pattern of the package under test")
	entryRe := flag.String("entry", "^H_", "regexp of harness entry functions")
	out := flag.String("out", "", "output json")
	solver := flag.String("solver", "z3", "solver: z3 | z3-new | cvc5")
	timeout := flag.Int("timeout", 60000, "per query timeout ms")
	verbose := flag.Bool("v", false, "verbose")
	loopCap := flag.Int("loopcap", 40, "loop unwinding cap")
	maxPaths := flag.Int("maxpaths", 200000, "max paths")
	smtlog := flag.String("smtlog", "", "log solver input to file")
	flag.Var(&harness, "harness", "harness go file (overlaid into the package dir); repeatable")
	var defs multi
	flag.Var(&defs, "D", "harness parameter name=int; repeatable")
	flag.Var(&overrides, "override", "callee=harnessFunc override; repeatable")
	list := flag.Bool("list", false, "list entries and exit")
	maxSwitches := flag.Int("maxswitches", 3, "context switches per path in interleaving mode")
	witness := flag.Int("witness", 0, "number of complete-path witnesses (solver models) to emit per entry")
	eoMode := flag.Bool("eo", false, "extract thread automata (event-order mode) instead of path exploration")
	eoCap := flag.Int("eocap", 12, "unrolling cap per program point in EO extraction")
	shard := flag.String("shard", "", "i/n : explore shard i of n (n a power of two)")
	strint := flag.Bool("strint", true, "encode strings as integers (equality-only string reasoning)")
	flag.Parse()

	smt.StrAsInt = *strint
	t0 := time.Now()
	prog, pkg, err := load(*dir, *pkgPat, harness)
	if err != nil {
		fmt.Fprintln(os.Stderr, "load error:", err)
		os.Exit(3)
	}
	re := regexp.MustCompile(*entryRe)
	var entries []*ssa.Function
	for name, m := range pkg.Members {
		if fn, ok := m.(*ssa.Function); ok && re.MatchString(name) && fn.Blocks != nil && len(fn.Params) == 0 {
			entries = append(entries, fn)
		}
	}
	sort.Slice(entries, func(i, j int) bool { return entries[i].Name() < entries[j].Name() })
	if *list {
		for _, e := range entries {
			fmt.Println(e.Name())
		}
		return
	}
	if len(entries) == 0 {
		fmt.Fprintln(os.Stderr, "no harness entries match", *entryRe)
		os.Exit(3)
	}
	loadSec := time.Since(t0).Seconds()
	var results []EntryOut
	exit := 0
	for _, fn := range entries {
		s, err := smt.NewSession(*solver, *timeout)
		if err != nil {
			fmt.Fprintln(os.Stderr, "solver:", err)
			os.Exit(3)
		}
		if *smtlog != "" {
			lf, _ := os.Create(*smtlog)
			s.Log = lf
		}
		ex := symex.NewExecutor(prog, s)
		ex.Verbose = *verbose
		ex.LoopCap = *loopCap
		ex.MaxPaths = *maxPaths
		ex.MaxSwitches = *maxSwitches
		ex.WitnessMax = *witness
		ex.HarnessPkg = pkg
		ex.SetupRedirects(pkg)
		if *shard != "" {
			var i, n int
			fmt.Sscanf(*shard, "%d/%d", &i, &n)
			bits := 0
			for (1 << uint(bits)) < n {
				bits++
			}
			ex.ShardBits, ex.ShardID = bits, i
		}
		for _, d := range defs {
			kv := strings.SplitN(d, "=", 2)
			n := 0
			fmt.Sscanf(kv[1], "%d", &n)
			ex.Params[kv[0]] = n
		}
		for _, ov := range overrides {
			kv := strings.SplitN(ov, "=", 2)
			hf := pkg.Func(kv[1])
			if hf == nil {
				fmt.Fprintln(os.Stderr, "override target not found:", kv[1])
				os.Exit(3)
			}
			ex.Overrides[kv[0]] = hf
		}
		t1 := time.Now()
		ex.RunInit(pkg)
		if *eoMode {
			res := ex.ExtractEO(fn, *eoCap)
			b, _ := json.Marshal(map[string]interface{}{"entry": fn.Name(), "eo": res, "wall_s": time.Since(t1).Seconds(), "queries": s.Queries})
			if *out != "" {
				os.WriteFile(*out, b, 0o644)
			} else {
				os.Stdout.Write(b)
			}
			fmt.Fprintf(os.Stderr, "%-40s EO: threads=%d nodes=%d edges=%d aborts=%d wall=%.2fs\n", fn.Name(), len(res.Threads), len(res.Nodes), len(res.Edges), len(res.Aborts), time.Since(t1).Seconds())
			for _, m := range res.Aborts {
				fmt.Fprintln(os.Stderr, "   abort:", m)
			}
			s.Close()
			if len(res.Aborts) > 0 {
				os.Exit(2)
			}
			return
		}
		ex.Run(fn)
		eo := EntryOut{Entry: fn.Name(), Paths: ex.Stats.Paths, SymPaths: ex.Stats.SymPaths, Forks: ex.Stats.Forks, Steps: ex.Stats.Steps,
			Obligations: ex.Stats.Obligations, Discharged: ex.Stats.Discharged, Trivial: ex.Stats.TrivialAsserts, Unknown: ex.Stats.Unknown,
			Aborts: ex.Stats.Aborts, AbortMsgs: dedup(ex.AbortMsgs, 20), Reach: ex.Stats.Reach, AssertIDs: ex.Stats.AssertIDs, Intrinsics: ex.Stats.Intrinsics,
			Queries: s.Queries, SolverSec: s.Seconds, NSat: s.NSat, NUnsat: s.NUnsat, NUnknown: s.NUnknown, SolverErrors: dedup(s.Errors, 10),
			WallSec: time.Since(t1).Seconds(), EndKinds: map[string]int{}, Races: ex.Races}
		for f := range ex.Stats.Funcs {
			eo.Funcs = append(eo.Funcs, f)
		}
		sort.Strings(eo.Funcs)
		for _, e := range ex.Ends {
			eo.EndKinds[e.Kind]++
		}
		for i, e := range ex.Ends {
			if i%(len(ex.Ends)/5+1) == 0 && len(eo.Samples) < 6 {
				eo.Samples = append(eo.Samples, fmt.Sprintf("path#%d end=%s pc_conjuncts=%d notes=%v", i, e.Kind, e.NPC, e.Notes))
			}
		}
		perID := map[string]int{}
		eo.ViolCounts = map[string]int{}
		for _, v := range ex.Viol {
			eo.ViolCounts[v.ID]++
			perID[v.ID]++
			if perID[v.ID] > 6 {
				continue
			}
			vo := ViolOut{ID: v.ID, Msg: v.Msg, Pos: v.Pos, Stack: v.Stack, Notes: v.Notes, Model: v.Model}
			for _, r := range v.ND {
				val := ""
				if v.Model != nil {
					val = v.Model[r.T.Name]
				}
				if r.T.IsConst() && r.T.Sort == smt.String {
					vo.Vec = append(vo.Vec, VecItem{Kind: r.Kind, Val: r.T.S, Tag: r.Tag})
					continue
				}
				vo.Vec = append(vo.Vec, VecItem{Kind: r.Kind, Val: withAffixes(r.Kind, r.T.Name, v.Model, decodeCased(r.Kind, val, v.Model["lower("+r.T.Name+")"])), Tag: r.Tag})
			}
			eo.Violations = append(eo.Violations, vo)
		}
		for _, w := range ex.Witnesses {
			wo := WitnessOut{Reached: w.Reached}
			for _, r := range w.ND {
				if r.T.IsConst() && r.T.Sort == smt.String {
					wo.Vec = append(wo.Vec, VecItem{Kind: r.Kind, Val: r.T.S, Tag: r.Tag})
					continue
				}
				wo.Vec = append(wo.Vec, VecItem{Kind: r.Kind, Val: withAffixes(r.Kind, r.T.Name, w.Model, decodeCased(r.Kind, w.Model[r.T.Name], w.Model["lower("+r.T.Name+")"])), Tag: r.Tag})
			}
			eo.Witnesses = append(eo.Witnesses, wo)
		}
		s.Close()
		results = append(results, eo)
		status := "ok"
		if len(eo.Violations) > 0 {
			status = fmt.Sprintf("VIOLATIONS=%d", len(eo.Violations))
			if exit == 0 {
				exit = 1
			}
		}
		if eo.Aborts > 0 || eo.Unknown > 0 || len(eo.SolverErrors) > 0 {
			status += fmt.Sprintf(" INCONCLUSIVE(aborts=%d unknown=%d solver_errors=%d)", eo.Aborts, eo.Unknown, len(eo.SolverErrors))
			exit = 2
		}
		fmt.Fprintf(os.Stderr, "%-40s paths=%d forks=%d oblig=%d/%d queries=%d solver=%.2fs wall=%.2fs %s\n", fn.Name(), eo.Paths, eo.Forks, eo.Discharged, eo.Obligations, eo.Queries, eo.SolverSec, eo.WallSec, status)
		for _, m := range eo.AbortMsgs {
			fmt.Fprintln(os.Stderr, "   abort:", m)
		}
		if *verbose {
			for _, v := range eo.Violations {
				fmt.Fprintf(os.Stderr, "   viol %s: %s @%s notes=%v\n", v.ID, v.Msg, v.Pos, v.Notes)
			}
		}
	}
	doc := map[string]interface{}{"load_s": loadSec, "entries": results, "dir": *dir, "pkg": *pkgPat}
	b, _ := json.MarshalIndent(doc, "", " ")
	if *out != "" {
		os.WriteFile(*out, b, 0o644)
	} else {
		os.Stdout.Write(b)
	}
	os.Exit(exit)
}

func decode(kind, val string) string {
	switch kind {
	case "int", "now", "ext-int":
		if n, ok := smt.ParseInt(val); ok {
			return n.String()
		}
		return "0"
	case "bool", "sched", "ext-bool":
		if strings.TrimSpace(val) == "true" {
			return "true"
		}
		return "false"
	case "string", "ext-fail-on":
		if smt.StrAsInt {
			if n, ok := smt.ParseInt(val); ok && n.IsInt64() {
				return smt.DecodeStr(n.Int64())
			}
			return ""
		}
		if s, ok := smt.ParseString(val); ok {
			return s
		}
		return ""
	}
	return val
}

// decodeCased: a string whose model code differs from the code of its lower-case image is rendered as a case variant
// of that image (a distinct variant per distinct code), so that strings.ToLower / EqualFold behave natively as in the model
var caseVariants = map[string][]string{}

func decodeCased(kind, val, lower string) string {
	if (kind != "string" && kind != "ext-fail-on") || !smt.StrAsInt || lower == "" {
		return decode(kind, val)
	}
	n, ok1 := smt.ParseInt(val)
	l, ok2 := smt.ParseInt(lower)
	if !ok1 || !ok2 || n.Cmp(l) == 0 {
		return decode(kind, val)
	}
	base := smt.DecodeStr(l.Int64())
	seen := caseVariants[l.String()]
	idx := -1
	for i, c := range seen {
		if c == n.String() {
			idx = i
		}
	}
	if idx < 0 {
		idx = len(seen)
		caseVariants[l.String()] = append(seen, n.String())
	}
	// variant idx+1 as a bit mask over the letters of the base
	mask := idx + 1
	b := []byte(base)
	bit := 0
	for i, c := range b {
		if c >= 'a' && c <= 'z' {
			if mask&(1<<uint(bit)) != 0 {
				b[i] = c - 32
			}
			bit++
		}
	}
	return string(b)
}

// withAffixes: a string the model says has a literal prefix / suffix (uf_hasprefix / uf_hassuffix true) is rendered with
// the longest such affix attached, so strings.HasPrefix / HasSuffix behave natively as in the model
func withAffixes(kind, name string, model map[string]string, val string) string {
	if (kind != "string" && kind != "ext-fail-on") || model == nil {
		return val
	}
	pre, suf := "", ""
	for k, v := range model {
		if strings.TrimSpace(v) != "true" {
			continue
		}
		if p := "hasprefix(" + name + ")|"; strings.HasPrefix(k, p) && len(k)-len(p) > len(pre) {
			pre = k[len(p):]
		}
		if p := "hassuffix(" + name + ")|"; strings.HasPrefix(k, p) && len(k)-len(p) > len(suf) {
			suf = k[len(p):]
		}
	}
	return pre + val + suf
}

func dedup(in []string, max int) []string {
	seen := map[string]bool{}
	var out []string
	for _, s := range in {
		if !seen[s] {
			seen[s] = true
			out = append(out, s)
			if len(out) >= max {
				break
			}
		}
	}
	return out
}

func load(dir, pat string, harness []string) (*ssa.Program, *ssa.Package, error) {
	cfg := &packages.Config{Mode: packages.LoadAllSyntax, Dir: dir, Overlay: map[string][]byte{}, Tests: false,
		Env: append(os.Environ(), "GOFLAGS=-mod=mod", "GOPROXY=off", "GOSUMDB=off", "GOTOOLCHAIN=local")}
	// figure out the package directory
	pkgDir := dir
	if pat != "." {
		pkgDir = filepath.Join(dir, strings.TrimPrefix(pat, "./"))
	}
	pkgName := detectPkgName(pkgDir)
	for i, h := range harness {
		b, err := os.ReadFile(h)
		if err != nil {
			return nil, nil, err
		}
		b = []byte(strings.Replace(string(b), "package __PKG__", "package "+pkgName, 1))
		cfg.Overlay[filepath.Join(pkgDir, fmt.Sprintf("zz_verif_%d_%s", i, filepath.Base(h)))] = b
	}
	pkgs, err := packages.Load(cfg, pat)
	if err != nil {
		return nil, nil, err
	}
	if packages.PrintErrors(pkgs) > 0 {
		return nil, nil, fmt.Errorf("package errors")
	}
	prog, spkgs := ssautil.AllPackages(pkgs, ssa.InstantiateGenerics)
	prog.Build()
	if len(spkgs) == 0 || spkgs[0] == nil {
		return nil, nil, fmt.Errorf("no ssa package")
	}
	return prog, spkgs[0], nil
}

func detectPkgName(dir string) string {
	ents, _ := os.ReadDir(dir)
	re := regexp.MustCompile(`(?m)^package\s+(\w+)`)
	for _, e := range ents {
		n := e.Name()
		if !strings.HasSuffix(n, ".go") || strings.HasSuffix(n, "_test.go") {
			continue
		}
		b, err := os.ReadFile(filepath.Join(dir, n))
		if err != nil {
			continue
		}
		if m := re.FindSubmatch(b); m != nil {
			return string(m[1])
		}
	}
	return "main"
}
