#!/bin/bash
# usage: tools_verify_seed.sh <seedout-dir> : verifies a seeded change in a scratch worktree of /repo HEAD
# prints: APPLY ok/fail, SUITE ok/fail, DEMO_WITH fail(expected)/pass, DEMO_WITHOUT pass(expected)/fail
export GOFLAGS=-mod=mod GOPROXY=off GOSUMDB=off GOTOOLCHAIN=local
S=$1; W=$(mktemp -d /tmp/vseed.XXXX); rmdir $W
git -C /repo worktree add -q --detach $W HEAD || exit 9
cd $W
demo=$(ls $S/*_test.go | head -1)
dest=${2:-.}
# without
cp $demo $dest/zz_seed_demo_test.go
if (cd $dest && go test -vet=off -count=1 -run 'Seed|seed|Demo' . >/tmp/vs_without.log 2>&1); then echo "DEMO_WITHOUT pass (expected)"; else echo "DEMO_WITHOUT FAIL"; tail -5 /tmp/vs_without.log; fi
rm $dest/zz_seed_demo_test.go
if git apply --3way $S/patch.diff 2>/tmp/vs_apply.log || git apply $S/patch.diff 2>>/tmp/vs_apply.log; then echo "APPLY ok"; else echo "APPLY FAIL"; cat /tmp/vs_apply.log; fi
git diff HEAD > /tmp/vs_patch_rebased.diff
if (go build ./... && go test -vet=off -count=1 ./... >/tmp/vs_suite.log 2>&1); then echo "SUITE ok"; else echo "SUITE FAIL"; tail -5 /tmp/vs_suite.log; fi
cp $demo $dest/zz_seed_demo_test.go
if (cd $dest && go test -vet=off -count=1 -run 'Seed|seed|Demo' . >/tmp/vs_with.log 2>&1); then echo "DEMO_WITH PASS (unexpected)"; else echo "DEMO_WITH fail (expected)"; fi
cd /; git -C /repo worktree remove --force $W
