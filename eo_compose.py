#!/usr/bin/env python3-vt
"""Event-order composition of thread automata (DESIGN §4.2): one formula over all schedules.
usage: eo_compose.py <automata.json> <P> [--solver-timeout-ms N]  -> JSON on stdout"""
import json, sys, time, itertools
import z3

SOLVER_TIMEOUT_MS = 600000


def main():
    global SOLVER_TIMEOUT_MS
    if "--solver-timeout-ms" in sys.argv:
        SOLVER_TIMEOUT_MS = int(sys.argv[sys.argv.index("--solver-timeout-ms") + 1])
    doc = json.load(open(sys.argv[1]))
    P = int(sys.argv[2])
    A = doc["eo"]
    t_all = time.time()
    nodes = {n["id"]: n for n in A["nodes"]}
    edges = [e for e in A["edges"] if e["kind"] != "start"]
    threads = {t["id"]: t for t in A["threads"]}
    ctxdone = set(A.get("ctx_done_chans") or [])
    chans = {int(k): v for k, v in (A.get("chans") or {}).items()}
    for ch, cap in chans.items():
        if ch not in ctxdone and cap != 0:
            print(json.dumps({"error": "buffered channel %d (cap %d) not supported by the encoding" % (ch, cap)})); sys.exit(2)
    out_e, in_e = {}, {}
    for e in edges:
        out_e.setdefault(e["src"], []).append(e)
        in_e.setdefault(e["dst"], []).append(e)
    x = {e["id"]: z3.Bool("x%d" % e["id"]) for e in edges}
    c = {e["id"]: z3.Int("c%d" % e["id"]) for e in edges}
    X, cX = z3.Bool("X"), z3.Int("cX")
    base = [cX > 0]
    for e in edges:
        base.append(c[e["id"]] > 0)
    # spawn edges
    spawn_of = {}
    for e in edges:
        if e["kind"] == "spawn":
            spawn_of[e["child"]] = e
    roots = {t["root"]: t["id"] for t in A["threads"]}

    def started(tid):
        if tid == 0:
            return z3.BoolVal(True)
        return x[spawn_of[tid]["id"]]

    def reached(nid):
        terms = [x[e["id"]] for e in in_e.get(nid, [])]
        if nid in roots:
            terms.append(started(roots[nid]))
        return z3.Or(terms) if terms else z3.BoolVal(False)

    # 1 thread shape, 2 program order
    for nid, n in nodes.items():
        outs = out_e.get(nid, [])
        for e in outs:
            base.append(z3.Implies(x[e["id"]], reached(nid)))
            for i in in_e.get(nid, []):
                base.append(z3.Implies(z3.And(x[e["id"]], x[i["id"]]), c[i["id"]] < c[e["id"]]))
            if nid in roots and roots[nid] != 0:
                sp = spawn_of[roots[nid]]
                base.append(z3.Implies(x[e["id"]], c[sp["id"]] < c[e["id"]]))
        if len(outs) > 1:
            base.append(z3.AtMost(*[x[e["id"]] for e in outs], 1))
    # 3 guards (none expected in this configuration: outcomes are separate edges)
    for e in edges:
        if e.get("guard"):
            print(json.dumps({"error": "guarded edge not supported: %s" % e["guard"]})); sys.exit(2)
    # 4 channel semantics
    by_ch = {}
    for e in edges:
        if e["kind"] in ("send", "recv", "recvclosed", "close"):
            by_ch.setdefault(e["ch"], {}).setdefault(e["kind"], []).append(e)
    match = {}
    panic_groups = {"send-on-closed-channel": [], "double-close": [], "negative-waitgroup": [], "thread-panic": []}
    closed = {}
    for ch, d in by_ch.items():
        S, R, RC, K = d.get("send", []), d.get("recv", []), d.get("recvclosed", []), d.get("close", [])
        for s in S:
            ms = []
            for r in R:
                if r["thread"] == s["thread"]:
                    continue
                m = z3.Bool("m_%d_%d" % (s["id"], r["id"]))
                match[(s["id"], r["id"])] = m
                base.append(z3.Implies(m, z3.And(x[s["id"]], x[r["id"]], c[s["id"]] == c[r["id"]])))
                ms.append(m)
            base.append(z3.Implies(x[s["id"]], z3.PbEq([(m, 1) for m in ms], 1) if ms else z3.BoolVal(False)))
            base.append(z3.Implies(z3.Not(x[s["id"]]), z3.And([z3.Not(m) for m in ms]) if ms else z3.BoolVal(True)))
        for r in R:
            ms = [match[(s["id"], r["id"])] for s in S if (s["id"], r["id"]) in match]
            base.append(z3.Implies(x[r["id"]], z3.PbEq([(m, 1) for m in ms], 1) if ms else z3.BoolVal(False)))
            if ms:
                base.append(z3.AtMost(*ms, 1))
        for rc in RC:
            base.append(z3.Implies(x[rc["id"]], z3.Or([z3.And(x[k["id"]], c[k["id"]] < c[rc["id"]]) for k in K]) if K else z3.BoolVal(False)))
        # a value receive cannot happen after the close (no sender may run after close without panicking; see W)
        closed[ch] = z3.Or([x[k["id"]] for k in K]) if K else z3.BoolVal(False)
        for s in S:
            for k in K:
                panic_groups["send-on-closed-channel"].append(z3.And(x[s["id"]], x[k["id"]], c[k["id"]] < c[s["id"]]))
        for k1, k2 in itertools.combinations(K, 2):
            panic_groups["double-close"].append(z3.And(x[k1["id"]], x[k2["id"]]))
    # ctx observations
    for e in edges:
        after = z3.And(X, cX < c[e["id"]])
        if e["kind"] == "ctxdone":
            base.append(z3.Implies(x[e["id"]], after))
        elif e["kind"] == "ctxerr-set":
            base.append(z3.Implies(x[e["id"]], after))
        elif e["kind"] == "ctxerr-nil":
            base.append(z3.Implies(x[e["id"]], z3.Not(after)))
        elif e["kind"] == "default":
            n = nodes[e["src"]]
            for a in n.get("arms") or []:
                if a["kind"] != "ctxdone":
                    print(json.dumps({"error": "non-blocking select with a channel arm other than ctx.Done is not supported"})); sys.exit(2)
            base.append(z3.Implies(x[e["id"]], z3.Not(after)))
    # wait groups
    wg = {}
    for e in edges:
        if e["kind"] in ("add", "done", "wait"):
            wg.setdefault(e["ch"], []).append(e)
    final_counter = {}
    for w, es in wg.items():
        ads = [e for e in es if e["kind"] in ("add", "done")]
        for a, b in itertools.combinations(es, 2):
            base.append(z3.Implies(z3.And(x[a["id"]], x[b["id"]]), c[a["id"]] != c[b["id"]]))
        for e in es:
            if e["kind"] == "wait":
                base.append(z3.Implies(x[e["id"]], z3.Sum([z3.If(z3.And(x[a["id"]], c[a["id"]] < c[e["id"]]), a["delta"], 0) for a in ads]) == 0))
            if e["kind"] == "done":
                panic_groups["negative-waitgroup"].append(z3.And(x[e["id"]], z3.Sum([z3.If(z3.And(x[a["id"]], c[a["id"]] <= c[e["id"]]), a["delta"], 0) for a in ads]) < 0))
        final_counter[w] = z3.Sum([z3.If(x[a["id"]], a["delta"], 0) for a in ads]) if ads else z3.IntVal(0)
    # thread-local panics
    for nid, n in nodes.items():
        if n.get("panic"):
            panic_groups["thread-panic"].append(reached(nid))
    # stuck / maximality
    def terminal(n):
        return n.get("final") or n.get("cutoff") or n.get("panic")
    stuck = {}
    for nid, n in nodes.items():
        if terminal(n):
            continue
        outs = out_e.get(nid, [])
        stuck[nid] = z3.And(reached(nid), z3.Not(z3.Or([x[e["id"]] for e in outs])) if outs else z3.BoolVal(True))
    send_nodes, recv_nodes = {}, {}
    for nid, n in nodes.items():
        for a in n.get("arms") or []:
            if a["kind"] == "send":
                send_nodes.setdefault(a["ch"], []).append(nid)
            elif a["kind"] == "recv":
                recv_nodes.setdefault(a["ch"], []).append(nid)
    hang = {}
    def enabled_final(nid, allow_hang):
        n = nodes[nid]
        op = n.get("op")
        if op == "select":
            outs = out_e.get(nid, [])
            if any(e["kind"] == "default" for e in outs):
                return z3.BoolVal(True)
            ts = []
            for a in n.get("arms") or []:
                if a["kind"] == "ctxdone":
                    ts.append(X)
                elif a["kind"] == "send":
                    ts += [stuck[m] for m in recv_nodes.get(a["ch"], []) if nodes[m]["thread"] != n["thread"] and m in stuck]
                    ts.append(closed.get(a["ch"], z3.BoolVal(False)))  # would panic: counts as enabled (W reports it)
                elif a["kind"] == "recv":
                    ts.append(closed.get(a["ch"], z3.BoolVal(False)))
                    ts += [stuck[m] for m in send_nodes.get(a["ch"], []) if nodes[m]["thread"] != n["thread"] and m in stuck]
            return z3.Or(ts) if ts else z3.BoolVal(False)
        if op == "wait":
            return final_counter.get(n["ch"], z3.IntVal(0)) == 0
        if op == "ret":
            if allow_hang:
                h = hang.setdefault(nid, z3.Bool("hang%d" % nid))
                return z3.Not(h)
            return z3.BoolVal(True)
        return z3.BoolVal(True)
    def maximal(allow_hang):
        return z3.And([z3.Implies(stuck[nid], z3.Not(enabled_final(nid, allow_hang))) for nid in stuck])
    # parked senders panic when the channel gets closed
    for ch, ns in send_nodes.items():
        for nid in ns:
            if nid in stuck:
                panic_groups["send-on-closed-channel"].append(z3.And(stuck[nid], closed.get(ch, z3.BoolVal(False))))

    main_final = [nid for nid, n in nodes.items() if n["thread"] == 0 and n.get("final") and not n.get("panic")]
    collector_done = z3.Or([reached(n) for n in main_final]) if main_final else z3.BoolVal(False)
    any_stuck = z3.Or(list(stuck.values())) if stuck else z3.BoolVal(False)
    cutoff = z3.Or([reached(nid) for nid, n in nodes.items() if n.get("cutoff")] or [z3.BoolVal(False)])
    # labels
    calls, rets = {}, {}
    for e in edges:
        if e["kind"] == "ev" and e.get("label", "").startswith("call:"):
            _, p, i, ev = e["label"].split(":")
            calls.setdefault((int(p), int(i)), []).append((e, int(ev)))
        if e["kind"] == "ret":
            p, i, k = [int(v) for v in e["label"].split(":")]
            rets.setdefault((p, i), []).append((e, k))
    nmatched = z3.Sum([z3.If(m, 1, 0) for m in match.values()]) if match else z3.IntVal(0)

    results = {}
    only = None
    if "--only" in sys.argv:
        only = set(sys.argv[sys.argv.index("--only") + 1].split(","))
    def query(name, extra, expect, allow_hang=False, need_max=True):
        if only is not None and name.split(".")[0] not in only:
            return
        s = z3.Solver()
        s.set("timeout", SOLVER_TIMEOUT_MS)
        s.add(base)
        if need_max:
            s.add(maximal(allow_hang))
        s.add(extra)
        t0 = time.time()
        r = str(s.check())
        results[name] = dict(result=r, expect=expect, ok=(r == expect), seconds=round(time.time() - t0, 3))
        if r == "sat" and expect == "unsat":
            m = s.model()
            tr = sorted([(m.eval(c[e["id"]], model_completion=True).as_long(), e) for e in edges if z3.is_true(m.eval(x[e["id"]], model_completion=True))], key=lambda p: p[0])
            results[name]["trace"] = ["%d T%d %s %s %s" % (k, e["thread"], e["kind"], e.get("label", ""), e.get("pos", "").split("/")[-1]) for k, e in tr]
            results[name]["cancel"] = str(m.eval(X, model_completion=True)) + "@" + str(m.eval(cX, model_completion=True))
        elif r == "sat":
            m = s.model()
            results[name]["witness_events"] = sum(1 for e in edges if z3.is_true(m.eval(x[e["id"]], model_completion=True)))

    T = z3.BoolVal(True)
    # reachability twins
    query("twin.full-run-no-cancel", [z3.Not(X), collector_done, z3.Not(any_stuck), nmatched == P], "sat")
    query("twin.cancelled-run", [X, collector_done], "sat")
    if rets:
        query("twin.node-hangs-forever", [X, collector_done, z3.Or(list(hang.values())) if hang else T], "sat", allow_hang=True) if False else None
    # C03
    query("D.deadlock-or-leak", [any_stuck], "unsat")
    query("R.prompt-return-after-cancel", [X, z3.Not(collector_done)], "unsat", allow_hang=True)
    query("T.returns-when-not-cancelled", [z3.Not(X), z3.Not(collector_done)], "unsat")
    query("U.collector-loop-bound", [cutoff], "unsat", need_max=False)
    for wi, (wname, wt) in enumerate(panic_groups.items()):
        if wname == "negative-waitgroup" and len(wt) > 1:
            # one query per Done edge (each has its own prefix sum): 4x4x4x4 needs 48 queries of <20 s instead of one that
            # does not finish in 10 minutes; reported as one result
            agg = dict(result="unsat", expect="unsat", ok=True, seconds=0.0, subqueries=len(wt))
            for j, t in enumerate(wt):
                query("W.tmp", [t], "unsat", need_max=False)
                if "W.tmp" not in results:
                    break
                r = results.pop("W.tmp")
                agg["seconds"] = round(agg["seconds"] + r["seconds"], 3)
                if r["result"] == "sat":
                    agg.update(result="sat", ok=False, trace=r.get("trace"), cancel=r.get("cancel"))
                    break
                if r["result"] != "unsat" and agg["result"] == "unsat":
                    agg.update(result=r["result"], ok=False)
            if only is None or "W" in only:
                results["W." + wname] = agg
            continue
        query("W." + wname, [z3.Or(wt) if wt else z3.BoolVal(False)], "unsat", need_max=False)
    # C03, "nodes finishing in any order": every pair of non-root node invocations of different pipelines can be in
    # progress at the same time (so a node may wait for any such node of another pipeline without hanging Send).
    # These are existence queries: unsat means the dispatch serialises the two pipelines.
    if "--overlap" in sys.argv:
        pipes = sorted({p for (p, i) in calls})
        depth = {p: max(i for (q, i) in calls if q == p) for p in pipes}
        for p, q in itertools.combinations(pipes, 2):
            for i in sorted({1, depth[p]}):
                for j in sorted({1, depth[q]}):
                    if i < 1 or j < 1 or (p, i) not in calls or (q, j) not in calls or (p, i) not in rets or (q, j) not in rets:
                        continue
                    ov = []
                    for (ca, _) in calls[(p, i)]:
                        for (ra, _) in rets[(p, i)]:
                            for (cb, _) in calls[(q, j)]:
                                for (rb, _) in rets[(q, j)]:
                                    ov.append(z3.And(x[ca["id"]], x[ra["id"]], x[cb["id"]], x[rb["id"]], c[ca["id"]] < c[rb["id"]], c[cb["id"]] < c[ra["id"]],
                                                     c[ca["id"]] < c[ra["id"]], c[cb["id"]] < c[rb["id"]]))
                    name = "C.overlap.%d:%d.%d:%d" % (p, i, q, j)
                    query(name, [z3.Not(X), z3.Or(ov)], "sat")
                    if name in results:
                        results[name]["pair"] = [p, i, q, j]
    # C01
    roots_missing = []
    for p in range(P):
        cs = calls.get((p, 0), [])
        roots_missing.append(z3.Not(z3.Or([x[e["id"]] for e, _ in cs])) if cs else T)
        for e, ev in cs:
            if ev != 0 and (only is None or "O" in only):
                results["O.root-receives-sent-event"] = dict(result="sat", expect="unsat", ok=False, seconds=0, trace=[e["label"]])
    if only is None or "O" in only:
        results.setdefault("O.root-receives-sent-event", dict(result="unsat", expect="unsat", ok=True, seconds=0))
    query("O.every-pipeline-started-when-not-cancelled", [z3.Not(X), z3.Or(roots_missing) if roots_missing else z3.BoolVal(False)], "unsat")
    twice = []
    for key, cs in calls.items():
        for (a, _), (b, _) in itertools.combinations(cs, 2):
            twice.append(z3.And(x[a["id"]], x[b["id"]]))
    query("O.node-invoked-at-most-once", [z3.Or(twice) if twice else z3.BoolVal(False)], "unsat", need_max=False)
    # node k+1 invoked only after node k passed, with exactly the event it returned
    bad = []
    for (p, i), cs in calls.items():
        if i == 0:
            continue
        for ce, ev in cs:
            oks = []
            for re, k in rets.get((p, i - 1), []):
                if k not in (0, 1):
                    continue
                ins = [int(ie["label"].split(":")[3]) for ie in in_e.get(re["src"], []) if ie["kind"] == "ev"]
                out_ev = ins[0] if ins else -1
                if out_ev == ev:
                    oks.append(z3.And(x[re["id"]], c[re["id"]] < c[ce["id"]]))
            bad.append(z3.And(x[ce["id"]], z3.Not(z3.Or(oks)) if oks else T))
    query("O.successor-gets-predecessors-event", [z3.Or(bad) if bad else z3.BoolVal(False)], "unsat", need_max=False)
    bad = []
    for (p, i), rs in rets.items():
        nxt = calls.get((p, i + 1))
        for re, k in rs:
            if k in (0, 1) and nxt is not None:
                bad.append(z3.And(x[re["id"]], z3.Not(z3.Or([x[e["id"]] for e, _ in nxt]))))
            if k in (2, 3) and nxt is not None:
                pass
    query("O.successor-invoked-iff-predecessor-passed", [z3.Or(bad) if bad else z3.BoolVal(False)], "unsat")
    # C02
    query("S.one-status-per-pipeline-when-not-cancelled", [z3.Not(X), collector_done, nmatched != P], "unsat")
    query("S.never-more-statuses-than-pipelines", [nmatched > P], "unsat", need_max=False)
    ok = all(r["ok"] for r in results.values())
    print(json.dumps(dict(ok=ok, P=P, threads=len(threads), states=len(nodes), transitions=len(edges), events=len(edges), matches=len(match),
                          queries=results, seconds=round(time.time() - t_all, 2), z3=z3.get_version_string())))
    sys.exit(0 if ok else 1)

if __name__ == "__main__":
    main()
