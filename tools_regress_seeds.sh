#!/bin/bash
# usage: tools_regress_seeds.sh [seed-id ...] : runs, for every stored seed, the quick check of the property it breaks
# (plus the extra checks named in meta.json "also") on /repo with the seed applied; prints one line per seed.
cd /verif
ids="$@"; [ -z "$ids" ] && ids=$(ls seeded)
for s in $ids; do
  [ -f seeded/$s/patch.diff ] || continue
  p=${s:0:3}
  extra=$(python3 -c "import json;print(' '.join(json.load(open('seeded/$s/meta.json')).get('also',[])))" 2>/dev/null)
  out=$(VERIF_JOBS=${VERIF_JOBS:-8} ./tools_run_seed.sh seeded/$s quick $p $extra 2>&1)
  v=$(echo "$out" | grep -c "^VIOLATION"); ex=$(echo "$out" | grep "^exit=" | tr '\n' ' ')
  echo "$s violations=$v $ex"
done
