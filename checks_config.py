# Per-property configuration of the symbolic checks. See DESIGN.md.
import os
# the code under test: /repo. VERIF_REPO is only for trying a change on a scratch copy (tools_run_seed.sh -s) while /repo must stay untouched
REPO = os.environ.get("VERIF_REPO", "/repo")

COMMON_TRUST = [
    "engine/symex: own go/ssa symbolic executor (value model, heap, map/sync.Map association lists, forks)",
    "contracts for sync.Mutex/RWMutex/WaitGroup/Map, fmt.Errorf (error algebra incl. %w), errors.Is (model in Go), time.* as integer nanoseconds",
    "z3 4.8.12; strings encoded as integers (only = and ==\"\" are asked)",
    "Go map iteration order: association-list order (A-maporder)",
    "machine integers as mathematical integers (overflow outside the claim; counters assumed < 2^20 where arithmetic occurs)",
]

BROKER_H = ["eventlogger/broker_state.go", "eventlogger/broker_ops.go", "eventlogger/c02.go", "eventlogger/c01_c07_c20.go", "eventlogger/c14.go", "eventlogger/c04.go", "eventlogger/c12.go", "eventlogger/interleave.go", "eventlogger/c19.go", "eventlogger/filesink.go", "eventlogger/history.go", "eventlogger/ctx_sym.go", "eventlogger/ctx_native.go"]

PROPS = {
    "C02": dict(
        level="other",
        explanation="Sequential symbolic execution of Status.getError, SetSuccessThreshold[Sinks], SuccessThreshold[Sinks] from go/ssa with thresholds, lengths (<=4) and ctx error symbolic; assertions discharged by z3 (unsat of negation). Plus: the error of a Send whose context is already done wraps ctx.Err() whatever cause was recorded (H_C02_process_cancelled); node outcomes include an error together with an event and the node's own context-type errors; node objects shared by several pipelines are reported once per pipeline (H_C01_shared_nodes).",
        jobs=[dict(harness=BROKER_H, entries=r"^H_C02_", params=dict(quick=dict(K=2, L=2), thorough=dict(K=3, L=3)), shards=dict(quick=1, thorough=8)),
              dict(harness=BROKER_H, entries=r"^H_C01_process_seq$|^H_C01_shared_nodes$", params=dict(quick=dict(P=2, N=2), thorough=dict(P=3, N=3)), shards=dict(quick=4, thorough=16, H_C01_shared_nodes=1))],
        must_reach=["C01.shared.end", "C02.threshold.end", "C02.getError.end", "C02.preserved.end", "C01.process.end", "C02.cancelled.end", "C02.cancelled.error"],
        bounds=dict(quick="thresholds: any int; complete/completeSinks lengths 0..4", thorough="same"),
        trusted_base=COMMON_TRUST,
    ),
    "C05": dict(
        level="other",
        explanation="Inductive step: RegisterPipeline / RegisterNode / RemoveNode / RemovePipelineAndNodes / IsAnyPipelineRegistered executed symbolically from an arbitrary broker state under the representation invariant (K symbolic node ids, symbolic types/policies/counts, target pipeline + one other pipeline explicit, the rest as ghost counts); spec predicate written independently in the harness; err==nil <=> spec and frame conditions discharged by z3. Plus: all histories of H operations (14 kinds x policy) from 72 API-built pre-states against a reference model written from the statement (H_C05_history_vs_model: return values, registered objects, IsAnyPipelineRegistered, deliveries and closes per node object); pipeline shapes of 1..6 nodes with arbitrary node types through the public API (H_C05_shapes); same-id pipelines of other event types untouched by every mutator.",
        jobs=[dict(harness=BROKER_H, entries=r"^H_C05_|^H_C07_pipeline_other_type$", params=dict(quick=dict(K=2, L=2, H=2, N=6, NR=4), thorough=dict(K=3, L=3, H=3, N=6, NR=5)),
                   shards=dict(quick=1, thorough=16, H_C05_RegisterPipeline=16, H_C05_isany_after_history=16, H_C05_history_vs_model=16, H_C07_pipeline_other_type=8))],
        must_reach=["C05.register.ok", "C05.register.fail", "C05.isany.end", "C05.registernode.fail", "C05.removenode.fail", "C05.rpan.false", "C05.isany.history", "C05.history.end", "C05.shapes.accepted", "C05.shapes.end", "C05.repeated.accepted"],
        bounds=dict(quick="K=2 node ids, definition length 0..2, existing pipeline length 2, one other pipeline; any number of pipelines of other types (ghost); histories: 2 operations (16 kinds x policy) from 256 API-built pre-states over ids {f,s,s2,x} x pipelines {p,q} of type t and p of type u, live or done context",
                    thorough="K=3 node ids, definition length 0..3, existing pipeline length 2..3; histories of 3 operations"),
        trusted_base=COMMON_TRUST,
    ),
    "C06": dict(
        level="other",
        explanation="Inductive step of every mutator (RegisterNode, RegisterPipeline, RemovePipeline, RemovePipelineAndNodes, RemoveNode) against the exact reference-count invariant referenceCount == listings by registered pipelines (+ ghost listings by untouched types), plus per-operation post-conditions (closed exactly once, only unreferenced nodes removed, errors carried). Plus the registry histories against the reference model (as C05) and which object a removal closes when nodes are decorators with or without a Close of their own (H_C06_close_target).",
        jobs=[dict(harness=BROKER_H, entries=r"^H_C06_", params=dict(quick=dict(K=2, L=3), thorough=dict(K=3, L=4)),
                   shards=dict(quick=4, thorough=16, H_C06_RegisterPipeline=16)),
              # all histories of H operations from API-built states against the reference model (closes / in-use / deliveries)
              dict(harness=BROKER_H, entries=r"^H_C05_history_vs_model$", params=dict(quick=dict(H=2), thorough=dict(H=3)), shards=dict(quick=16, thorough=16))],
        must_reach=["C05.history.end", "C06.close-target.end", "C06.base", "C06.registerpipeline.ok", "C06.removepipeline.target", "C06.rpan.true", "C06.removenode.end", "C06.registernode.end"],
        bounds=dict(quick="K=2 node ids, pipelines/definitions up to 3 nodes", thorough="K=3 node ids, up to 4 nodes"),
        trusted_base=COMMON_TRUST,
    ),
    "C07": dict(
        level="other",
        explanation="Inductive step of RegisterNode and RegisterPipeline over symbolic policies (allow/deny/default/arbitrary invalid strings): fails iff the existing entry says DenyOverwrite (or the request is invalid) and then changes nothing; otherwise the stored policy is the requested one; linked pipelines and same-id pipelines of other event types are untouched. Under concurrency: two registrations of one id with symbolic policies and pre-state equal one of the two sequential orders (H_C07_policies_interleaved); a Send racing with an overwrite is processed by exactly one version end to end (two fully distinct versions, a schedule point inside the node).",
        jobs=[dict(harness=BROKER_H, entries=r"^H_C07_RegisterNode$|^H_C07_pipeline_other_type$|^H_C05_RegisterPipeline$", params=dict(quick=dict(K=2, L=2), thorough=dict(K=3, L=3)),
                   shards=dict(quick=1, thorough=16, H_C05_RegisterPipeline=16, H_C07_pipeline_other_type=8)),
              dict(harness=BROKER_H, entries=r"^H_C07_send_vs_overwrite$|^H_C07_policies_interleaved$", params=dict(quick={}, thorough={}), shards=dict(quick=4, thorough=8), maxswitches=dict(quick=3, thorough=5), instrument_locks=True),
              dict(harness=BROKER_H, entries=r"^H_C05_history_vs_model$", params=dict(quick=dict(H=2), thorough=dict(H=3)), shards=dict(quick=16, thorough=16))],
        must_reach=["C05.history.end", "C07.node.ok", "C07.node.fail", "C07.othertype.end", "C05.register.ok", "C05.register.fail", "C07.overwrite-vs-send.end", "C07.policies.end"],
        bounds=dict(quick="K=2, L=2; policy strings arbitrary", thorough="K=3, L=3"),
        trusted_base=COMMON_TRUST,
    ),
    "C20": dict(
        level="other",
        explanation="Broker.Reopen / graph.reopen / doReopen executed symbolically from an arbitrary registry (two pipelines of one type + one pipeline of a second type, every linked node a distinct stub with symbolic Reopen outcome): no failure => nil and every node reached; any failure => non-nil; a single failure is carried (errors.Is). The context passed to Reopen may already be done; two pipelines of one type may share their head node object.",
        jobs=[dict(harness=BROKER_H, entries=r"^H_C20_", params=dict(quick=dict(K=2, L=3), thorough=dict(K=3, L=4)), shards=dict(quick=8, thorough=16)),
              # registries reached through the API (histories of H operations incl. repeated removals), then Reopen
              dict(harness=BROKER_H, entries=r"^H_C05_history_vs_model$", params=dict(quick=dict(H=2), thorough=dict(H=3)), shards=dict(quick=16, thorough=16))],
        must_reach=["C20.reopen.ok", "C20.reopen.one-failure", "C05.history.end", "C20.reopen-target.end", "C20.reopen.twice", "C20.value-nodes.end"],
        bounds=dict(quick="2 types; pipelines of 2..3, 2 and 2 nodes", thorough="pipelines of 2..4, 2, 2 nodes"),
        trusted_base=COMMON_TRUST,
    ),
    "C01": dict(
        level="other",
        explanation="Sequential parts: Send's lookup/event construction with graph.process replaced by a recording stub; linkNodes for all lengths 0..5; RegisterPipeline builds the list from the currently registered nodes (C05 harness); graph.process/doProcess executed with cooperative scheduling on one schedule for all outcome vectors (order, at-most-once, exact event hand-over). All-schedule reasoning: see EO jobs. Plus node objects shared between pipelines (invoked once per listing pipeline), two overlapping Sends sharing no mutable dispatch state (lockset), and the other-type frame of every registry mutator.",
        jobs=[dict(harness=BROKER_H, entries=r"^H_C01_Send$", params=dict(quick=dict(K=2, L=2), thorough=dict(K=3, L=3)), shards=dict(quick=1, thorough=4),
                   overrides=["(*github.com/hashicorp/eventlogger.graph).process=verifStubProcess"]),
              dict(harness=BROKER_H, entries=r"^H_C01_linkNodes$|^H_C01_shared_nodes$|^H_C01_two_sends$|^H_C05_repeated_ids$|^H_C01_send_after_odd_removals$", params=dict(quick=dict(LL=5, NR=4), thorough=dict(LL=5, NR=5)), shards=dict(quick=1, thorough=1, H_C01_send_after_odd_removals=8)),
              # which node objects a registered pipeline traverses: the list RegisterPipeline builds from any registry (inductive step)
              dict(harness=BROKER_H, entries=r"^H_C05_RegisterPipeline$|^H_C07_pipeline_other_type$", params=dict(quick=dict(K=2, L=2), thorough=dict(K=3, L=3)), shards=dict(quick=16, thorough=16, H_C07_pipeline_other_type=8)),
              dict(harness=BROKER_H, entries=r"^H_C01_process_seq$", params=dict(quick=dict(P=2, N=2), thorough=dict(P=3, N=3)), shards=dict(quick=4, thorough=16))],
        must_reach=["C01.send.known", "C01.send.unknown", "C01.link.ok", "C01.process.end", "C05.register.ok", "C01.shared.end", "C01.two-sends.end", "C05.repeated.accepted", "C01.odd-removals.end"],
        bounds=dict(quick="P<=2 pipelines x 2 nodes; list length<=5", thorough="P<=2 x 2..3 nodes (9 node outcomes each)"),
        trusted_base=COMMON_TRUST,
    ),
    "C11": dict(
        level="other",
        explanation="Inductive step of gated.Filter.Process / FlushAll / Close (with the real container/list code) from an arbitrary filter state under the representation invariant (<=G open groups with symbolic ids, expiry instants and 1..E events each), with symbolic clock, flush flag, compose outcome (plain / Gateable / error) and send outcome; ghost logs of compose and send calls decide exactly-once, order and whole-group composition. Plus histories of H operations from the zero-value filter against a reference model of the open groups (H_C11_history_vs_model), a fixed five-event scenario with all instants symbolic (H_C17_staggered_expiry), the pre-state 'flushed / closed before, used again', and arbitrary creation times on the gated events (arrival order, not time order).",
        jobs=[dict(pkg="./filters/gated", harness=["gated/gated.go", "gated/concurrent.go"], entries=r"^H_C11_|^H_C17_", params=dict(quick=dict(G=2, E=2, GC=1, EC=1), thorough=dict(G=3, E=2, GC=2, EC=2)), shards=dict(quick=4, thorough=16, H_C11_concurrent=16),
                   maxswitches=dict(quick=3, thorough=4), instrument_locks=True),
              # histories from the zero-value filter against a reference model of the open groups
              dict(pkg="./filters/gated", harness=["gated/gated.go", "gated/history.go"], entries=r"^H_C11_history_vs_model$|^H_C17_staggered_expiry$", params=dict(quick=dict(H=4), thorough=dict(H=5)), shards=dict(quick=16, thorough=16, H_C17_staggered_expiry=1))],
        must_reach=["C11.history.end", "C17.staggered.end", "C11.process.flush", "C11.process.gated", "C11.process.error", "C11.passthrough.plain", "C11.passthrough.noid", "C17.flushall.ok", "C17.flushall.error", "C11.concurrent.end"],
        bounds=dict(quick="<=2 open groups x 1..2 events; histories of 4 operations (8 kinds, ids a/b, arbitrary clock advances) from the zero-value filter", thorough="<=3 groups x 1..2 events; histories of 5 operations"),
        assumptions=["A-gated-mono: NowFunc non-decreasing and Expiration constant while groups are open (expiry instants non-decreasing along the list)"],
        trusted_base=COMMON_TRUST,
    ),
}
PROPS["C18"] = dict(
    level="other",
    explanation="cloudevents FormatterFilter.Process / validate / sign / Rotate executed symbolically over all configurations (source nil/empty/set, schema nil/empty/set, arbitrary format string, signer absent/succeeding/failing, <=T listed types, predicate absent/true/false/error) and payload kinds (plain, ID, Data, both); json.Encoder.Encode, base64 and url.URL.String are uninterpreted/deterministic functions, so 'serialized is the exact unsigned document' and 'signer saw exactly those bytes' are term equalities decided by z3. Plus histories of events of listed / unlisted types interleaved with Rotate (signed iff listed, by the signer in force), payloads whose Data() returns nil, predicate (true, err), hostile text for ids and types in native replays.",
    jobs=[dict(pkg="./formatter_filters/cloudevents", harness=["cloudevents/cloudevents.go"], entries=r"^H_C18_", params=dict(quick=dict(T=1, STEPS=3), thorough=dict(T=3, STEPS=5)), shards=dict(quick=8, thorough=16))],
    must_reach=["C18.invalid", "C18.emptyid", "C18.ok-signed", "C18.ok-unsigned", "C18.error", "C18.rotate", "C18.two.end", "C18.listing.end", "C18.history.end", "C18.fresh-ids.end"],
    bounds=dict(quick="SignEventTypes <= 1; histories of <= 3 steps over {event of listed type 1/2, unlisted type, Rotate to signer A/B}", thorough="SignEventTypes <= 3; histories of <= 5 steps"),
    assumptions=["event type non-empty (only such events come from Broker.Send)", "JSON text validity is trusted encoding/json", "url.URL.String modelled for path-only URLs as the path", "A-random: strings from the system's random source do not repeat"],
    trusted_base=COMMON_TRUST,
)
PROPS["C17"] = dict(PROPS["C11"], must_reach=["C17.flushall.ok", "C11.process.gated", "C17.flushall.after-earlier-close", "C11.history.end", "C17.staggered.end"])
PROPS["C14"] = dict(
    level="other",
    explanation="JSONFormatter / JSONFormatterFilter / Filter / Event.FormattedAs / Event.Format executed symbolically over arbitrary events (symbolic type, time, payload fields, nil or <=2-entry format table) and predicate outcomes; json.Encoder.Encode is an uninterpreted deterministic function of the flattened value (including the struct's field tags), so 'the stored bytes are the encoding of exactly {created_at,event_type,payload}' is a term equality against an independently written reference encoding. Payload present or nil; predicate outcomes true / false / (false, err) / (true, err); encoder failures and hostile text (control characters, quotes, non-UTF-8) are acted out in native replays.",
    jobs=[dict(harness=BROKER_H, entries=r"^H_C14_(JSONFormatter|Filter|FormattedAs|two_events)$", params=dict(quick={}, thorough={})),
          dict(harness=BROKER_H, entries=r"^H_C14_formatted_interleaved$", params=dict(quick={}, thorough={}), shards=dict(quick=2, thorough=4), maxswitches=dict(quick=4, thorough=6), instrument_locks=True)],
    must_reach=["C14.unencodable", "C14.forwarded", "C14.filter.end", "C14.table.end", "C14.two.end", "C14.interleaved.end"],
    bounds=dict(quick="format table nil or <=2 entries", thorough="same"),
    assumptions=["validity / round-trip of the JSON text itself is trusted encoding/json", "concurrent FormattedAs/Format: see C19 (lockset)"],
    trusted_base=COMMON_TRUST,
)
PROPS["C13"] = dict(
    level="other",
    explanation="writer.Sink.Process executed symbolically with an io.Writer stub returning symbolic (n, err) incl. short writes, arbitrary format tables (<=F entries) and configured format: success only after exactly one Write of exactly the configured format's bytes under the sink's lock; error otherwise. (bytes.Reader.WriteTo is the standard library's code transcribed as a Go model over opaque content.) FileSink additionally with two concurrent writers (interleaving exploration, each event once and whole); ChannelSink with a context that is done before the call or becomes done while Process waits, and a timeout that elapses or is far away.",
    jobs=[dict(pkg="./sinks/writer", harness=["sinks/writer.go", "sinks/writer_c19.go"], entries=r"^H_C13_writer|^H_C19_writer_pairs$", params=dict(quick=dict(F=2), thorough=dict(F=3))),
          dict(pkg="./sinks/channel", harness=["sinks/channel.go"], entries=r"^H_C13_channel", params=dict(quick={}, thorough={}))],
    must_reach=["C13.writer.rejected", "C13.writer.ok", "C13.writer.failed", "C13.channel.ok", "C13.channel.error"],
    bounds=dict(quick="<=2 formats", thorough="<=3 formats"),
    trusted_base=COMMON_TRUST,
)
PROPS["C04"] = dict(
    level="other",
    explanation="Lockset analysis with solver-decided feasibility: every ordered pair of the 12 Broker API calls is executed symbolically as two concurrent regions from a common pre-state; the executor logs every load/store of every heap cell reachable from shared objects together with the set of sync locks held (mode R/W); two accesses to overlapping cells, at least one a write, with no common lock held exclusively by one side, on a feasible pair of paths = race candidate, which is then replayed natively under go test -race.",
    jobs=[dict(harness=BROKER_H, entries=r"^H_C04_api_pairs$", params=dict(quick={}, thorough={}), shards=dict(quick=16, thorough=16)),
          dict(harness=BROKER_H, entries=r"^H_C04_mutators_interleaved$|^H_C04_send_vs_registration$|^H_C07_send_vs_overwrite$|^H_C04_remove_vs_register$", params=dict(quick={}, thorough={}),
               shards=dict(quick=8, thorough=16), maxswitches=dict(quick=3, thorough=5), instrument_locks=True)],
    must_reach=["C04.pairs.end", "C04.interleaved.end", "C04.send-vs-registration.end", "C07.overwrite-vs-send.end", "C04.remove-vs-register.end"],
    bounds=dict(quick="all 12x12 ordered API pairs on a registry with 2 nodes, <=2 pipelines of one type, a second type; one Send's internal goroutines on one schedule", thorough="same"),
    assumptions=["a data race is a pairwise notion: pairwise freedom from a common pre-state; happens-before only through sync locks, go statements and channel operations of the library itself", "StopTimeAt (test helper) excluded"],
    trusted_base=COMMON_TRUST,
)
PROPS["C12"] = dict(
    level="other",
    explanation="Every Broker API call executed symbolically with a registered node that re-enters Send on the same broker from Process, Close or Reopen; the RWMutex contract of the executor reports (a) any acquisition of a lock the goroutine already holds in a conflicting mode (self-deadlock) and (b) a recursive read lock (deadlocks behind a queued writer under Go's writer preference); locks held at return are asserted empty. Counterexamples are replayed natively with a watchdog (and, for (b), a stream of concurrent writers). Plus a catalogue of 28 calls (every exported method on its success and early-return paths): afterwards no lock is held and setters, getters, Send and RegisterNode return (H_C12_every_call_releases); the same catalogue racing with a writer queued on the broker lock (H_C12_every_call_vs_writer, deterministic replay).",
    jobs=[dict(harness=BROKER_H, entries=r"^H_C12_reentry$|^H_C12_every_call_releases$", params=dict(quick={}, thorough={}), shards=dict(quick=4, thorough=4)),
          dict(harness=BROKER_H, entries=r"^H_C12_reentry_vs_writer$|^H_C12_every_call_vs_writer$", params=dict(quick={}, thorough={}), shards=dict(quick=4, thorough=8), maxswitches=dict(quick=3, thorough=5), instrument_locks=True),
          dict(pkg="./filters/gated", harness=["gated/gated.go", "gated/c12.go"], entries=r"^H_C12_", params=dict(quick=dict(G=2), thorough=dict(G=3)), shards=dict(quick=4, thorough=8))],
    must_reach=["C12.reentry.end", "C12.gated.end", "C12.reentry-vs-writer.end", "C12.every-call.end", "C12.every-call-vs-writer.end"],
    bounds=dict(quick="12 API operations x re-entry from {Process, Close, Reopen}; one re-entrant node", thorough="same"),
    trusted_base=COMMON_TRUST,
)

EO_JOB = dict(kind="eo", harness=BROKER_H + ["eventlogger/eo.go"], eo_entry="H_EO_process")
EO_NOTE = "Schedules: thread automata of graph.process (collector), its range goroutine and every doProcess goroutine are extracted from the real go/ssa (one goroutine at a time, join-merged), then all interleavings, cancel instants, node outcomes and node-return delays of a configuration are one SMT formula (event-order encoding: an 'executed' Boolean and an integer clock per visible action; Go's unbuffered-channel, select, close, WaitGroup and context rules as constraints; maximality for deadlock/leak). "
PROPS["C03"] = dict(
    level="model_checking",
    explanation=EO_NOTE + "Queries (each must be unsat): D deadlock or goroutine leak once all nodes returned; R collector not returned although cancelled (nodes may hang forever); T not returned although never cancelled; U collector loop bound; W send on closed channel / double close / negative WaitGroup / thread panic. Reachability twins must be sat.",
    jobs=[dict(EO_JOB, eo_queries=["twin", "D", "R", "T", "U", "W", "C"]),
          dict(harness=BROKER_H, entries=r"^H_C12_reentry_vs_writer$", params=dict(quick={}, thorough={}), shards=dict(quick=4, thorough=8), maxswitches=dict(quick=3, thorough=5), instrument_locks=True),
          # a Send after any Broker call (successful or early-returning) returns: no call leaves a lock behind
          dict(harness=BROKER_H, entries=r"^H_C12_every_call_releases$|^H_C12_reentry$|^H_C01_send_after_odd_removals$", params=dict(quick={}, thorough={}), shards=dict(quick=4, thorough=4, H_C01_send_after_odd_removals=8))],
    must_reach=["C12.every-call.end", "C12.reentry.end", "C01.odd-removals.end"],
    bounds=dict(quick="all 15 ordered shapes with P<=3 pipelines x N_i in {2,3} nodes; all schedules, cancel instants (never/anywhere), outcomes, node delays", thorough="P<=3 x N_i in {2,3,5} (40 ordered shapes) + P=4 x N_i in {2,3} (16) + (2,2,2,5), (5,3,2,2), 4x4; larger 4- and 5-pipeline shapes are outside the claim (solver budget)"),
    assumptions=["received Status values are havocked in the automata (control never depends on them; contents are checked on the sequential harness)", "hand-written Go channel/select/WaitGroup/context semantics of the composer (eo_compose.py) is trusted; latency in seconds is not expressible (enabledness instead)"],
    trusted_base=COMMON_TRUST + ["eo_compose.py: event-order semantics of unbuffered channels, select, close, WaitGroup, context cancellation"],
)
PROPS["C01"]["jobs"].append(dict(EO_JOB, eo_queries=["twin", "O"]))
PROPS["C01"]["level"] = "model_checking"
PROPS["C01"]["explanation"] += " " + EO_NOTE + "Queries O: every pipeline's root is invoked when not cancelled; no node invoked twice; a successor is invoked iff (and after) its predecessor passed."
PROPS["C02"]["jobs"].append(dict(EO_JOB, eo_queries=["twin", "S"]))
PROPS["C02"]["level"] = "model_checking"
PROPS["C02"]["explanation"] += " " + EO_NOTE + "Queries S: exactly one status is received per pipeline when not cancelled; never more statuses than pipelines (each received status is matched to one real send)."
for _p in ("C01", "C02"):
    PROPS[_p]["bounds"] = dict(quick=PROPS[_p]["bounds"]["quick"] + "; EO: 15 ordered shapes P<=3 x N in {2,3}", thorough=PROPS[_p]["bounds"]["thorough"] + "; EO: P<=3 x N in {2,3,5}, P=4 x N in {2,3}, (2,2,2,5), (5,3,2,2), 4x4")
PROPS["C19"] = dict(
    level="other",
    explanation="Lockset analysis (as C04) over the library's own nodes: every ordered pair of core node kinds (Filter, JSONFormatter, JSONFormatterFilter) processing the same *Event, shared or separate instances; Event.FormattedAs/Format pairs; writer.Sink Process||Process/Reopen; gated.Filter Process||Process/FlushAll/Close; cloudevents Process||Process/Rotate. Conflicting accesses without a common lock are replayed natively under go test -race. Plus the two-event sequential harnesses (a stored []byte must not alias memory reused by a later Process call).",
    jobs=[dict(harness=BROKER_H, entries=r"^H_C19_|^H_C14_two_events$", params=dict(quick={}, thorough={}), shards=dict(quick=4, thorough=8)),
          dict(pkg="./sinks/writer", harness=["sinks/writer.go", "sinks/writer_c19.go"], entries=r"^H_C19_", params=dict(quick=dict(F=2), thorough=dict(F=2))),
          dict(pkg="./filters/gated", harness=["gated/gated.go", "gated/c19.go"], entries=r"^H_C19_", params=dict(quick={}, thorough={}), shards=dict(quick=4, thorough=8)),
          dict(pkg="./sinks/channel", harness=["sinks/channel.go", "sinks/channel_c19.go"], entries=r"^H_C19_", params=dict(quick={}, thorough={})),
          # "no corrupted output": concurrent senders through one gated.Filter hand every accepted event to exactly one composition
          dict(pkg="./filters/gated", harness=["gated/gated.go", "gated/concurrent.go"], entries=r"^H_C11_concurrent$", params=dict(quick=dict(G=2, E=2, GC=1, EC=1), thorough=dict(G=3, E=2, GC=2, EC=2)), shards=dict(quick=16, thorough=16),
               maxswitches=dict(quick=3, thorough=4), instrument_locks=True),
          # ... and two concurrent writers through one FileSink leave each event once and whole
          dict(harness=BROKER_H, entries=r"^H_C08_concurrent_writers$", params=dict(quick={}, thorough={}), shards=dict(quick=4, thorough=8), maxswitches=dict(quick=3, thorough=5), instrument_locks=True),
          dict(pkg="./formatter_filters/cloudevents", harness=["cloudevents/cloudevents.go", "cloudevents/c19.go"], entries=r"^H_C19_|^H_C18_two_events$", params=dict(quick=dict(T=1), thorough=dict(T=1))),
          dict(dir=REPO + "/filters/encrypt", harness=["encrypt/common.go", "encrypt/helpers_sym.go", "encrypt/helpers_native.go", "encrypt/c16.go", "encrypt/c09.go", "encrypt/c19.go"], entries=r"^H_C19_", params=dict(quick={}, thorough={}), shards=dict(quick=4, thorough=8))],
    must_reach=["C19.core.end", "C19.table.end", "C19.writer.end", "C19.gated.end", "C19.cloudevents.end", "C19.filesink.end", "C19.encrypt.end", "C19.channel.end", "C11.concurrent.end", "C08.concurrent.end"],
    bounds=dict(quick="pairwise (a data race is a pairwise notion); one shared Event; node instances shared or not", thorough="same"),
    assumptions=["public configuration fields that the library never writes are read-only by contract", "channel operations themselves are race-free by the language definition"],
    trusted_base=COMMON_TRUST,
)
FS_NOTE = "FileSink.Process / Reopen / reopen / open / rotate / pruneFiles / fileNamePattern / newFileName executed symbolically over a ghost file system (contracts for os.OpenFile incl. its flag word, Write, Close, Stat, Rename, Remove, Chmod, MkdirAll, filepath.Join/Glob, sort.Strings; file names parsed back into literal+timestamp structure so glob matching and order are decided structurally / as integer comparisons) from an arbitrary sink state (<=R rotated files with increasing symbolic timestamps, foreign files, active file open or not, symbolic BytesWritten/LastCreated/MaxBytes/MaxFiles/MaxDuration/Mode/TimestampOnlyOnRotate, symbolic clock). "
PROPS["C08"] = dict(
    level="other",
    explanation=FS_NOTE + "Assertions: an acknowledged event is appended exactly once and contiguously to the file the sink holds; existing files keep their content; only the oldest rotated files are removed and only under a retention limit; foreign files untouched; Reopen after an external rename keeps the renamed inode intact and starts a fresh file. Plus histories of H operations (write / Reopen / external rename + Reopen) from an empty directory: the files read oldest to newest hold exactly the acknowledged sequence, or a suffix of it under a retention limit (H_C08_history); two concurrent writers (H_C08_concurrent_writers); a directory created on demand and the default mode (H_C15_fresh_directory).",
    jobs=[dict(harness=BROKER_H, entries=r"^H_C08_(Process|Reopen|history)$|^H_C15_fresh_directory$|^H_C15_file_names$", params=dict(quick=dict(R=2, FAULTS=0, H=4), thorough=dict(R=3, FAULTS=0, H=5)), shards=dict(quick=16, thorough=16), instrument_clock=True),
          dict(harness=BROKER_H, entries=r"^H_C08_concurrent_writers$", params=dict(quick={}, thorough={}), shards=dict(quick=4, thorough=8), maxswitches=dict(quick=3, thorough=5), instrument_locks=True)],
    must_reach=["C08.concurrent.end", "C08.history.end", "C15.fresh-directory.end", "C15.file-names.end", "C08.process.norotate", "C08.process.rotated", "C08.process.opened", "C08.reopen.renamed", "C08.reopen.plain"],
    bounds=dict(quick="<=2 rotated files + active + 2 foreign files; one operation from an arbitrary state (inductive step); histories of 4 operations (write / Reopen / external rename + Reopen) from an empty directory, MaxFiles 0..2, any MaxBytes / MaxDuration / clock", thorough="<=3 rotated files; histories of 5 operations"),
    assumptions=["A-write: one write(2) on an O_APPEND descriptor is all-or-nothing, also under SIGKILL (partial writes and kernel crash behaviour are outside the claim)", "A-19digits: timestamps print with the same number of digits", "the clock is non-decreasing and strictly increasing between two file creations", "A-umask: the process umask is 022 (files get the configured mode only through the sink's explicit chmod)", "concurrent writers: every access happens with FileSink.l held (lockset in C19)"],
    trusted_base=COMMON_TRUST + ["ghost file system contracts (engine/symex/fsmodel.go)"],
)
PROPS["C15"] = dict(PROPS["C08"], explanation=FS_NOTE + "Assertions: rotation happens when BytesWritten>=MaxBytes>0 or the file is certainly older than MaxDuration>0 and never when certainly below both; counters restart; active name plain with TimestampOnlyOnRotate; at most MaxFiles rotated files right after a rotation (oldest removed first); configured mode applied.")
PROPS["C13"]["jobs"].append(dict(harness=BROKER_H, entries=r"^H_C08_Process$|^H_C13_file_specials$|^H_C13_file_partial_write$", params=dict(quick=dict(R=0, FAULTS=1), thorough=dict(R=1, FAULTS=1)), shards=dict(quick=8, thorough=16), instrument_clock=True, instrument_fs=True))
PROPS["C13"]["jobs"].append(dict(harness=BROKER_H, entries=r"^H_C08_concurrent_writers$", params=dict(quick={}, thorough={}), shards=dict(quick=4, thorough=8), maxswitches=dict(quick=3, thorough=5), instrument_locks=True))
PROPS["C13"]["must_reach"] += ["C13.file.specials", "C13.file.noformat", "C13.file.partial.ok", "C08.concurrent.end", "C13.channel.two-senders.end"]
ENC_H = ["encrypt/common.go", "encrypt/helpers_sym.go", "encrypt/helpers_native.go", "encrypt/c16.go", "encrypt/history.go"]
ENC_DIR = REPO + "/filters/encrypt"
PROPS["C16"] = dict(
    level="other",
    explanation="Filter.encrypt, Filter.hmacSha256, Rotate, the rotation-payload branch of Process, NewEventWrapper, NewDerivedReader and derivedKeyId executed symbolically with every cryptographic leaf (aead.Wrapper Encrypt/KeyBytes/KeyId, hkdf.New, io.ReadFull of the derived reader, hmac, ed25519.GenerateKey, proto.Marshal, base64) an uninterpreted deterministic function of its inputs: the output must be exactly enc / HMAC under the wrapper, salt and info in force (per-event values first), Rotate / rotation payloads install the new material (copied, not aliased) and the next value uses it; the per-event wrapper is a function of (filter wrapper key, event id) only. Plus histories of events, events with an id (per-event salt/info nil or set), Rotate and rotation payloads with any subset of the material against a model of what is in force (H_C16_history_vs_model), the caller's earlier salt/info slices are never written, and the C09 shape harnesses (values protected through struct fields, map entries and pointer tags are the right function of the original bytes).",
    jobs=[dict(dir=ENC_DIR, harness=ENC_H, entries=r"^H_C16_(encrypt|hmac|rotate|event_wrapper|event_id_across_rotation|event_material_everywhere)$", params=dict(quick={}, thorough={}), shards=dict(quick=4, thorough=8)),
          # values protected through the payload walkers (struct fields, map entries, pointer tags) are the right function of the
          # original bytes as well: the C09 shape harnesses assert "exactly enc / HMAC of the original under the material in force"
          dict(dir=ENC_DIR, harness=ENC_H + ["encrypt/c09.go"], entries=r"^H_C09_(struct|toplevel)$", params=dict(quick={}, thorough={}), shards=dict(quick=8, thorough=16)),
          dict(dir=ENC_DIR, harness=ENC_H, entries=r"^H_C16_history_vs_model$", params=dict(quick=dict(H=3), thorough=dict(H=3)), shards=dict(quick=16, thorough=16), maxpaths=400000),
          dict(dir=ENC_DIR, harness=ENC_H, entries=r"^H_C16_process_vs_rotate$", params=dict(quick={}, thorough={}), shards=dict(quick=4, thorough=8), maxswitches=dict(quick=3, thorough=5), instrument_locks=True)],
    must_reach=["C16.encrypt.ok", "C16.encrypt.rejected", "C16.hmac.ok", "C16.hmac.rejected", "C16.rotate.end", "C16.eventwrapper.ok", "C16.eventwrapper.rejected", "C16.rotation.end", "C16.eventid.end", "C16.history.end", "C16.everywhere.end", "C09.struct.ok", "C09.toplevel.ok"],
    bounds=dict(quick="salt/info nil or 0..2 arbitrary bytes; data any string; histories of 3 operations (event, event with id, Rotate / rotation payload with any subset of wrapper, salt, info)", thorough="same (4 operations exceed 1.8 million paths: not registered)"),
    assumptions=["AES-GCM decrypts to the plaintext, HKDF and HMAC-SHA256 compute the standard functions, ed25519 key derivation: trusted primitives (uninterpreted)", "concurrent rotation: see the lockset/interleaving jobs"],
    trusted_base=COMMON_TRUST + ["engine/symex/cryptomodel.go contracts"],
)
ENC_H2 = ENC_H + ["encrypt/c09.go"]
REFLECT_NOTE = "encrypt.Filter.Process and everything below it (filterField, filterValue, filterSlice, filterTaggable, setValue, trackedMaps.*, getClassificationFromTag[String], convertToOperation, copyFilterOperationOverrides, encrypt, hmacSha256) executed symbolically on a catalogue of concrete payload shapes with symbolic contents; reflect.Value/Type, copystructure.Copy and pointerstructure.Get/Set are interpreted over the executor's own typed value model (engine/symex/reflectmodel.go), cryptographic leaves are uninterpreted. Override maps over {public,sensitive,secret} x {absent,none,redact,encrypt,hmac} and wrapper present/absent/failing are symbolic. "
PROPS["C09"] = dict(
    level="other",
    explanation=REFLECT_NOTE + "An independently written specification (expect) says for every leaf which operation must have been applied; the forwarded value must be exactly that (kept / [REDACTED] / enc under the wrapper / HMAC under wrapper+salt+info); missing wrapper with a configured encrypt/hmac operation and every failing step must return an error and forward nothing.",
    jobs=[dict(dir=ENC_DIR, harness=ENC_H2, entries=r"^H_C09_|^H_C10_", params=dict(quick={}, thorough={}), shards=dict(quick=8, thorough=16))],
    must_reach=["C09.struct.ok", "C09.struct.nowrapper", "C09.struct.error", "C09.nested.ok", "C09.toplevel.ok", "C09.first-field.ok", "C09.taggable-faults.ok", "C09.taggable-faults.refused", "C09.wrapper-values.ok", "C09.map-struct-map.ok", "C09.tag-spellings.checked", "C10.struct.allnone", "C10.trivial.end"],
    bounds=dict(quick="shape catalogue: tagged struct via pointer (11 field kinds incl. unknown class / unknown op / untagged / []byte / nil []byte), nested pointer + []string + [][]byte + *string + untagged map with sub-map + struct value, top-level untagged map / Taggable map / []string / *string / string; struct value as first field (shares the parent's address) + slice of struct values", thorough="same"),
    assumptions=["payload shapes outside the catalogue (protobuf structpb, deeper nesting, slices of Taggables) are not covered", "tags are the concrete tags of the catalogue types (no symbolic tag strings)", "reflect / copystructure / pointerstructure semantics are our model of those libraries"],
    trusted_base=COMMON_TRUST + ["engine/symex/reflectmodel.go", "engine/symex/cryptomodel.go"],
)
PROPS["C09"]["jobs"].append(dict(dir=ENC_DIR, harness=ENC_H, entries=r"^H_C16_rotate$", params=dict(quick={}, thorough={}), shards=dict(quick=4, thorough=8)))
PROPS["C09"]["must_reach"].append("C16.rotate.end")
PROPS["C10"] = dict(PROPS["C09"], explanation=REFLECT_NOTE + "The caller's event and payload are compared leaf by leaf with a snapshot taken before Process; the forwarded event must be a distinct object graph of the same dynamic type and shape (lengths, keys, non-string values); all-none overrides and nil/zero payloads forward the same event.")

_TECH = {
 "C01": "symbolic execution of go/ssa (SMT, z3) + event-order SMT encoding of all schedules over thread automata extracted from the SSA",
 "C02": "symbolic execution of go/ssa (SMT, z3), inductive step over every mutator + event-order SMT encoding of all schedules",
 "C03": "event-order SMT encoding (executed/clock variables per visible action) of all schedules, cancel instants and node delays over thread automata extracted from go/ssa; lock-granular interleaving with symbolic context switches",
 "C04": "lockset analysis on symbolically executed go/ssa with solver-decided path feasibility + bounded interleaving exploration with symbolic context-switch choices and a sequential-order oracle",
 "C05": "inductive step: symbolic execution of go/ssa from an arbitrary invariant-satisfying state, specification predicate written independently, SMT (z3)",
 "C06": "inductive invariant (exact reference counting) checked by symbolic execution of every mutator, SMT (z3)",
 "C07": "inductive step by symbolic execution of go/ssa + bounded interleaving exploration with symbolic context switches",
 "C08": "inductive step by symbolic execution of go/ssa over a ghost file system (contracts for os/filepath), SMT (z3)",
 "C09": "symbolic execution of go/ssa with reflect/copystructure/pointerstructure interpreted over the executor's value model and uninterpreted cryptography, independent specification, SMT (z3)",
 "C10": "symbolic execution of go/ssa with reflect-lite; snapshot comparison of the input object graph, SMT (z3)",
 "C11": "inductive step by symbolic execution of go/ssa (incl. container/list) + bounded interleaving exploration of two senders",
 "C12": "symbolic execution with a lock contract (re-acquisition / recursive read lock / all-blocked states) + bounded interleaving exploration with writer-preferring RWMutex",
 "C13": "symbolic execution of go/ssa with symbolic writer outcomes, symbolic select-arm choice, ghost file system with write faults; lockset",
 "C14": "symbolic execution of go/ssa with json encoding as an uninterpreted deterministic function, SMT (z3)",
 "C15": "inductive step by symbolic execution of go/ssa over a ghost file system with symbolic clock and counters, SMT (z3)",
 "C16": "symbolic execution of go/ssa with uninterpreted cryptographic primitives + bounded interleaving exploration (rotation vs process)",
 "C17": "inductive step by symbolic execution of go/ssa (incl. container/list), invariant preservation, SMT (z3)",
 "C18": "symbolic execution of go/ssa with uninterpreted json/base64/signer, SMT (z3)",
 "C19": "lockset analysis on symbolically executed go/ssa (solver-decided feasibility), races replayed under go test -race",
 "C20": "symbolic execution of go/ssa from an arbitrary registry with symbolic node outcomes, SMT (z3)",
}
for _p, _t in _TECH.items():
    PROPS[_p]["technique"] = _t


# Per-entry parameter overrides (on top of the job's parameters of the tier). The registry step harnesses multiply paths
# quickly with the number of symbolic ids K and the definition length L: K=3, L=3 costs 50 CPU-minutes for RegisterPipeline
# alone (run #6), so the thorough tier deepens L before K there; pipelines of 3..6 nodes are covered by H_C05_shapes, three
# distinct ids in one overwrite by H_C05_history_vs_model.
ENTRY_PARAMS = {
    "H_C05_RegisterPipeline": dict(quick=dict(K=2, L=2), thorough=dict(K=2, L=3)),
    "H_C06_RegisterPipeline": dict(quick=dict(K=2, L=3), thorough=dict(K=2, L=4)),
    "H_C07_pipeline_other_type": dict(quick=dict(K=2, L=2), thorough=dict(K=2, L=2)),
    # K=3, L=4 costs 52 wall-minutes for C06's thorough tier (run #8), most of it here: deepen L only
    "H_C06_RemovePipelineAndNodes": dict(quick=dict(K=2, L=3), thorough=dict(K=2, L=4)),
    # nine node outcomes per node: 3 pipelines x 3 nodes is 9^9 outcome vectors (run #9 hit the path cap); 2 x 3 is 9^6
    "H_C01_process_seq": dict(quick=dict(P=2, N=2), thorough=dict(P=2, N=3)),
    "H_C02_thresholds_preserved": dict(quick=dict(K=2, L=2), thorough=dict(K=2, L=3)),
}
# Entries that are not re-run under the other solvers in the thorough tier (hundreds of thousands of paths each; the
# cross-solver agreement is sampled on every other entry, which exercise the same encodings)
NO_CROSSCHECK = {"H_C05_history_vs_model", "H_C05_RegisterPipeline", "H_C06_RegisterPipeline", "H_C07_pipeline_other_type",
                 "H_C11_history_vs_model", "H_C16_history_vs_model", "H_C08_history", "H_C20_Reopen", "H_C09_nested", "H_C09_struct",
                 "H_C02_thresholds_preserved", "H_C01_process_seq", "H_C06_RemovePipelineAndNodes", "H_C06_RemovePipeline", "H_C11_concurrent"}
