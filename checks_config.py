# Per-property configuration of the symbolic checks. See DESIGN.md.
REPO = "/repo"

COMMON_TRUST = [
    "engine/symex: own go/ssa symbolic executor (value model, heap, map/sync.Map association lists, forks)",
    "contracts for sync.Mutex/RWMutex/WaitGroup/Map, fmt.Errorf (error algebra incl. %w), errors.Is (model in Go), time.* as integer nanoseconds",
    "z3 4.8.12; strings encoded as integers (only = and ==\"\" are asked)",
    "Go map iteration order: association-list order (A-maporder)",
    "machine integers as mathematical integers (overflow outside the claim; counters assumed < 2^20 where arithmetic occurs)",
]

BROKER_H = ["eventlogger/broker_state.go", "eventlogger/broker_ops.go", "eventlogger/c02.go"]

PROPS = {
    "C02": dict(
        level="other",
        explanation="Sequential symbolic execution of Status.getError, SetSuccessThreshold[Sinks], SuccessThreshold[Sinks] from go/ssa with thresholds, lengths (<=4) and ctx error symbolic; assertions discharged by z3 (unsat of negation).",
        jobs=[dict(harness=BROKER_H, entries=r"^H_C02_", params=dict(quick={}, thorough={}))],
        must_reach=["C02.threshold.end", "C02.getError.end"],
        bounds=dict(quick="thresholds: any int; complete/completeSinks lengths 0..4", thorough="same"),
        trusted_base=COMMON_TRUST,
    ),
    "C05": dict(
        level="other",
        explanation="Inductive step: RegisterPipeline / RegisterNode / RemoveNode / RemovePipelineAndNodes / IsAnyPipelineRegistered executed symbolically from an arbitrary broker state under the representation invariant (K symbolic node ids, symbolic types/policies/counts, target pipeline + one other pipeline explicit, the rest as ghost counts); spec predicate written independently in the harness; err==nil <=> spec and frame conditions discharged by z3.",
        jobs=[dict(harness=BROKER_H, entries=r"^H_C05_", params=dict(quick=dict(K=2, L=2), thorough=dict(K=3, L=3)),
                   shards=dict(quick=1, thorough=16, H_C05_RegisterPipeline=16))],
        must_reach=["C05.register.ok", "C05.register.fail", "C05.isany.end", "C05.registernode.fail", "C05.removenode.fail", "C05.rpan.false"],
        bounds=dict(quick="K=2 node ids, definition length 0..2, existing pipeline length 2, one other pipeline; any number of pipelines of other types (ghost)",
                    thorough="K=3 node ids, definition length 0..3, existing pipeline length 2..3"),
        trusted_base=COMMON_TRUST,
    ),
    "C06": dict(
        level="other",
        explanation="Inductive step of every mutator (RegisterNode, RegisterPipeline, RemovePipeline, RemovePipelineAndNodes, RemoveNode) against the exact reference-count invariant referenceCount == listings by registered pipelines (+ ghost listings by untouched types), plus per-operation post-conditions (closed exactly once, only unreferenced nodes removed, errors carried).",
        jobs=[dict(harness=BROKER_H, entries=r"^H_C06_", params=dict(quick=dict(K=2, L=3), thorough=dict(K=3, L=4)),
                   shards=dict(quick=4, thorough=16, H_C06_RegisterPipeline=16))],
        must_reach=["C06.base", "C06.registerpipeline.ok", "C06.removepipeline.target", "C06.rpan.true", "C06.removenode.end", "C06.registernode.end"],
        bounds=dict(quick="K=2 node ids, pipelines/definitions up to 3 nodes", thorough="K=3 node ids, up to 4 nodes"),
        trusted_base=COMMON_TRUST,
    ),
}
