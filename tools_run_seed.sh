#!/bin/bash
# usage: tools_run_seed.sh <seeded/ID dir> <tier> <Cxx> [Cxx...] : apply the seeded change to /repo, run the checks, undo it
S=$(realpath $1); T=$2; shift 2
git -C /repo diff --quiet || { echo "/repo dirty"; exit 9; }
git -C /repo apply $S/patch.diff || { echo "patch does not apply"; exit 9; }
for p in "$@"; do echo "--- $p on $(basename $S)"; /verif/check $p $T 2>&1 | grep -E "^(VIOLATION|KNOWN|INCONCLUSIVE|C[0-9]+ )" | cut -c1-300; echo "exit=${PIPESTATUS[0]}"; done
git -C /repo checkout -- . ; git -C /repo status --short | head -3
# evidence files were rewritten by runs on a mutated tree: restore the committed ones
git -C /verif checkout -- evidence 2>/dev/null; rm -f /verif/replays/*.json
