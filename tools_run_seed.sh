#!/bin/bash
# usage: tools_run_seed.sh <seeded/ID dir> <tier> <Cxx> [Cxx...]
# default: apply the seeded change to /repo (git -C /repo apply), run the checks, undo it (git -C /repo checkout -- .)
# VERIF_SCRATCH=1: the same on a scratch worktree of /repo HEAD (checks run with VERIF_REPO=<worktree>), for use while a
# background run is reading /repo
S=$(realpath $1); T=$2; shift 2
if [ -n "$VERIF_SCRATCH" ]; then
  W=$(mktemp -d /tmp/seedrepo.XXXX); rmdir $W
  git -C /repo worktree add -q --detach $W HEAD || exit 9
  git -C $W apply $S/patch.diff || { echo "patch does not apply"; git -C /repo worktree remove --force $W; exit 9; }
  for p in "$@"; do echo "--- $p on $(basename $S)"; VERIF_REPO=$W /verif/check $p $T 2>&1 | grep -E "^(VIOLATION|KNOWN|INCONCLUSIVE|C[0-9]+ )" | cut -c1-300; echo "exit=${PIPESTATUS[0]}"; done
  git -C /repo worktree remove --force $W
else
  git -C /repo diff --quiet || { echo "/repo dirty"; exit 9; }
  git -C /repo apply $S/patch.diff || { echo "patch does not apply"; exit 9; }
  for p in "$@"; do echo "--- $p on $(basename $S)"; /verif/check $p $T 2>&1 | grep -E "^(VIOLATION|KNOWN|INCONCLUSIVE|C[0-9]+ )" | cut -c1-300; echo "exit=${PIPESTATUS[0]}"; done
  git -C /repo checkout -- . ; git -C /repo status --short | head -3
fi
# evidence files were rewritten by runs on a mutated tree: restore the committed ones
git -C /verif checkout -- evidence 2>/dev/null; rm -f /verif/replays/*.json
